//! Derive lab (C12): `gen.rs` is written by `zvtverif C12` at run time (git-ignored).
mod gen;

#[global_allocator]
static ALLOC: zvtverif::alloc::Counting = zvtverif::alloc::Counting;

fn main() {
    std::process::exit(zvtverif::labrun::main(gen::lab_types(), gen::shapes(), gen::TABLE))
}
