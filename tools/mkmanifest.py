#!/usr/bin/env python3
"""Regenerates /verif/MANIFEST.json from the table below (one entry per claimed property)."""
import json, os, sys
ROOT = os.path.dirname(os.path.dirname(os.path.abspath(__file__)))
ALL = [f"C{i:02d}" for i in range(1, 21)]
# id -> (category, technique, level text, level note, design ref)
CHECKS = {
 "C01": ("exploration", "proptest generation of canonical values from an independent layout table; round-trip oracle on the real types (decode-first bridge)",
         "For all 55 shipped packet/TLV types, thousands of generated canonical values per type (every optional present/absent, vec lengths, boundary-biased numbers and lengths, whole CP437/hex alphabets, APDU bodies pumped onto the 254/255 and TLV 127/128, 255/256 switch points) are pushed through the repository's serialiser and deserialiser and compared with PartialEq, no bytes left.",
         "Trusted: reference codec + layout table define the canonical domain (DESIGN.md 5.1). Values enter the real types through the repo's decoder; C03 verifies on the same cases that this decoder yields exactly the intended value.", "7/C01"),
 "C02": ("exploration", "exhaustive small inputs + deterministic corpus mutation + proptest structure-aware mutation (+ libFuzzer in the thorough tier); oracle: no panic / bounded allocation / suffix remainder / exact-value differential / debug-vs-release outcome digests",
         "All 55 packet decoders and 17 reply parsers are fed every small input, every truncation and boundary (thorough: every) single-byte substitution of a corpus of captured and generated packets, and randomly generated structure-aware mutants (length announcements and BER forms, digit overflow, calendar values, group splices, APDU length edits). Each call must return without panicking in a build with overflow checks, allocate at most a small multiple of the input, hand back a suffix, agree with an exact u128 reference reading when both accept, and give the same outcome in a release build.",
         "Trusted: reference decoder for the exact-value differential; counting allocator in the harness binary. Explores the stated mutation neighbourhoods, not all 64 KiB strings.", "7/C02"),
 "C03": ("exploration", "proptest generation + differential against a reference codec interpreting an independent layout table (both directions), plus captured blobs",
         "Bytes assembled by an independent reference codec from a hand-written layout table must decode into exactly the named fields (compared through Debug) with nothing left, and the repository must re-encode them to the identical bytes, for generated canonical values of all 55 types; the 24 captured packets are read by both decoders.",
         "Trusted: harness/src/layouts.tbl (transcribed from the ZVT / Feig specification, cross-checked against the captured blobs) and harness/src/refc.rs. A layout error shared by table and code is invisible.", "7/C03"),
 "C04": ("exploration", "exhaustive header sweep + exhaustive chunkings of short streams + proptest packet sequences x chunk schedules x end-of-stream positions against a scripted in-memory peer",
         "The real PacketTransport reads from an in-memory peer whose chunk schedule the harness owns (a Pending wake-up between chunks): writer output and reader interpretation of the length header are compared for every body length 0..65535; all 2^(n-1) chunkings of short concatenations and generated sequences of 1..5 packets (around the 254/255 switch and up to 65535) must come back as exactly those packets, the read cursor exactly at each boundary with no read asking beyond it, and a stream ending inside a packet or at a boundary must give an error.",
         "Trusted: harness RawFrame parser (copies what the transport framed) and the in-memory peer; real sockets' short writes are not modelled.", "7/C04"),
 "C05": ("exploration", "bounded-exhaustive reply scripts + proptest scripts, model-based: peer event log compared with a reference trace model",
         "All 17 Sequence impls run against a scripted peer that releases reply i+1 only after reply i was answered: every well-formed script up to depth 5 (thorough 6) over the command's reply alphabet and generated scripts up to length 40, with trailing bytes and chunk schedules; the log must show the command once, one acknowledgement per reply before hand-over and before the next read, items in order, end right after the first final packet without further I/O, trailing bytes untouched.",
         "Trusted: Appendix B tables (reply sets, final packets) and the peer's gating model (a terminal sends its acknowledgement and first reply without waiting). The upload stream is covered by C11.", "7/C05"),
 "C06": ("fault_enumeration", "fault enumeration: every fault kind at every position behind every valid script prefix (bounded-exhaustive) + proptest prefixes; oracle over the peer's event log",
         "For all 17 sequences, every valid reply prefix up to depth 4 (thorough 5) is followed by each fault (4 NACK codes, packets outside the reply set, undecodable bodies inside it, truncated packets followed by end of stream, end of stream) at the acknowledgement position or instead of the next reply: exactly one Err after the Ok items, then None twice without I/O, and no byte written after the faulty bytes were released.",
         "Trusted: the fault model of Appendix C; malformed bodies are those both the reference decoder and the packet's own decoder reject.", "7/C06"),
 "C07": ("exploration", "model-based testing: bounded-exhaustive and proptest-generated call histories, real client stepped alongside a reference ClientModel; request log decoded by the reference codec; final drain",
         "The real Feig client runs against the simulated terminal while a reference model {open: token -> receipt, max} is stepped alongside. All histories of begin/commit/cancel over 3 tokens with every terminal outcome up to depth 3 (thorough 4), success-only to depth 4 (5), for max 0..3, and generated walks to length 40 over 5 tokens: after every call the result class, the traffic (refused calls: zero bytes, no connection; begin: one Reservation; commit/cancel: that token's receipt) and a final drain (cancel of every token) are compared.",
         "Trusted: ClientModel in harness/src/props/c07.rs, simulated terminal; fault-free transport (faults are C09/C10).", "7/C07"),
 "C08": ("exploration", "proptest generation of amounts, currencies, tokens, receipts and terminal status fields; real client against the simulated terminal; exact expected requests via the reference codec",
         "Generated configurations (pre-authorisation amount over the whole 12-digit field, final amounts over u64 incl. 0, P-1, P, P+1, u32/u64 extremes, currencies, passwords, CP437 tokens, receipts, 1..3 status-information packets with optional fields over their full width) drive begin + commit/cancel; the Reservation, PartialReversal and PreAuthReversal requests are decoded by the reference codec and must equal the exact expected values (release = max(P - a, 0) in u128, nothing else set), the terminal's ledger must hold min(a, P) and the summary must reproduce the last status information.",
         "Trusted: reference codec, simulated terminal ledger. P >= 10^12 does not fit the field and is outside the property.", "7/C08"),
 "C09": ("fault_enumeration", "fault enumeration (every position x {close, garbage, NACK, silence, wrong serial}) + proptest multi-fault plans; invariants over the client-side per-connection log on virtual time",
         "Single faults are injected at every packet position of every exchange of each public operation (handshake and reconnect handshake included), multi-fault plans are sampled, and every run ends with one more fault-free call. Invariants I1-I4 over the client-side connection log (open / bytes / close with virtual time) decide the property: registration and identity check first on every connection, no use of a wrong-serial connection, nothing written after a delivered fault and the connection dropped before the next opens, healthy connections kept and reused without re-registration.",
         "Trusted: simulated terminal and the logging stream wrapper (harness/src/sim.rs); fault model of DESIGN.md Appendix C. Only modelled fault kinds are explored.", "7/C09"),
 "C10": ("fault_enumeration", "fault enumeration on virtual time: a stall at every packet position of every exchange (from a dry-run transcript), exhaustive read_card_timeout 0..255, proptest-sampled configurations; watchdog oracle in tokio paused time",
         "The real Feig client runs against an in-process simulated terminal on tokio's paused clock (hook zvt_verif). For each of the six public operations a fault-free dry run yields the packet positions of all its exchanges, handshake included; a stall (silence / header then silence, once / on every attempt) is injected at each, plus stalls in the handshake of a forced reconnect and in connect(). The call must return without panicking within S(op)*20*3*(T+2) virtual seconds under a one-virtual-day watchdog; read_card_timeout is enumerated 0..255 including a terminal that answers t+1 s after its ack (no collapse).",
         "Trusted: tokio's paused clock and in-memory duplex streams stand in for the network; the simulated terminal (harness/src/sim.rs). A terminal trickling packets below the per-packet time-out is outside the property.", "7/C10"),
 "C11": ("exploration", "proptest generation of payload directories, block sizes and request scripts; the real upload stream runs against a scripted peer over real temporary files; reference codec decodes the client's packets",
         "Generated directories (subsets of the 21 recognised paths plus unrelated files, sizes around 0 / block / k*block, random content), block sizes 1..32768 and request scripts (announced / unannounced ids, offsets at, before and after end of file and beyond 2^31, missing fields) drive the real WriteFile stream: the announcement must list exactly the recognised files with their true sizes and the password, every good request must be answered once with its id, offset and the bit-identical file slice, a bad request must end the upload with one error and no data.",
         "Trusted: own copy of the 21-entry file-id table; reference codec for feig.WriteFile / WriteData / RequestForData; files live in a per-case temporary directory.", "7/C11"),
 "C12": ("exploration", "generated programs: proptest draws struct definitions from the well-formed attribute grammar, they are compiled against the repository's derive macro and run against the reference codec interpreting the generator's own layout description (differential + round trip + edit / suffix / totality oracles) on generated canonical values",
         "250 (thorough 2400) random #[derive(Zvt)] structs per run - any mix of positional and tagged fields, Option / Vec, nested structs to depth 3, every length style and encoding, optional control field, both attribute spellings, 1- and 2-byte tags - are compiled with /repo's macro. For each, hundreds of generated canonical values must decode from reference-assembled bytes into exactly the described fields, re-encode identically and round-trip; tagged-group edits, suffix / shortened-length relations and a truncation / byte-edit totality pass reuse the C13 / C14 / C02 oracles.",
         "Trusted: the generator's well-formedness rules (unique decodability, DESIGN.md Appendix D) and the reference codec. Program-level shrinking is by isolation of the failing struct. Known finding K3 (KNOWN_FINDINGS.txt) is tolerated by exact signature.", "7/C12"),
 "C13": ("exploration", "proptest-generated canonical values x enumerated edits of the reference encoder's group list (permutations, duplicates, removals, foreign tags) at every nesting level",
         "For every shipped type with tagged fields and generated canonical values, the tagged groups are permuted (all permutations up to 4/6 groups, sampled above), duplicated to every position, mandatory ones removed in every subset, and a tag unknown to the whole packet tree inserted at every gap, at the top level and inside every nested container; the decoder must return the same value, DuplicateTag(t), MissingRequiredTags(all, ascending), or error / exact prefix value + untouched remainder respectively.",
         "Trusted: reference encoder's grouping (tree.rs) and reference decoder for the prefix value. Inside Vec elements the documented 'failure = end of vector' rule weakens the oracle to the prefix predicate. Generated (lab) structs are covered by C12.", "7/C13"),
 "C14": ("exploration", "proptest-generated canonical values x metamorphic relations (suffix invariance, foreign data behind containers, shortened length announcements vs reference decoder)",
         "R1: all 31 commands x generated values x suffixes (every single byte, a valid packet, random bytes): decode returns the same value and exactly the suffix. R2: foreign data behind every nested container. R3: every length-prefixed container and the APDU re-announced 1..3 bytes shorter must give an error or exactly the reference reading of the announced bytes.",
         "Trusted: reference decoder (refc.rs) as the reading of 'only the announced bytes'; R3 gives no verdict where the reference rejects the input.", "7/C14"),
 "C15": ("exploration", "exhaustive enumeration of all 65 536 control fields per reply parser against an independent reply-set table, differential with the variant's own packet decoder",
         "All 17 reply parsers x all 65 536 (class, instr) pairs x bodies {empty, canonical bodies of every variant's packet type, random}: a pair outside the independent reply-set table must be an error; an owned pair must produce exactly the variant named by the table with the content (or error) its own packet type yields for the same bytes. The control-field space is finite and enumerated completely.",
         "Trusted: registry::enum_table() (hand-written from ZVT chapter 2 reply sets, DESIGN.md Appendix B).", "7/C15"),
 "C16": ("exploration", "exhaustive enumeration against independent reference length functions (property-based, no sampling)",
         "Every representable length of every prefix style (Tlv/Adpu 0..65535, Llv 0..99, Lllv 0..999, Fixed<1..17>) with trailing data, and every byte string of length <= 3 through each parser, is compared with independently written reference prefix functions. The space the property quantifies over is finite and is enumerated completely, so exploration here is exhaustive.",
         "Trusted: the reference prefix functions in harness/src/props/c16.rs (BER-TLV / ZVT APDU / LLVAR rules). Lengths above a style's range are outside the property.", "7/C16"),
 "C17": ("exploration", "exhaustive enumeration (u8/u16, tags, short strings) + proptest generation (wide integers, digit strings, text) against reference encoders",
         "Round trips and exact reference bytes for LE/BE/BCD integers, tags, hex, CP437 and receipt numbers: small domains exhaustively, wide ones at all digit/bit boundaries plus seeded random values; BCD digit strings of every length 0..11 bytes must give the exact value or an error.",
         "Trusted: own BCD / CP437 (Unicode mapping) / tag reference functions. Non-decimal BCD nibbles are only required not to panic (the repository's captured PANs contain masked digits).", "7/C17"),
 "C18": ("exploration", "proptest generation of status-information replies (reference encoder) + all 256 abort codes; positive and never-clauses, metamorphic relations (intermediates, unrelated fields, repeated presentation)",
         "read_card runs against generated replies: UID absent / 0..20 bytes (leading zeros, 000000 after the cut, captured UIDs), application entries directly and in the 62 container with and without application ids, unrelated TLV fields, 0..5 intermediate statuses, every abort code. Bank iff the first listed entry carries an application id; MembershipCard(canon(uid)) when nothing is listed; never Membership when an application is listed, never Bank when none is; the id is always the canonical form; the answer does not depend on intermediates, unrelated fields or repetition; 0x6c => NoCardPresented, other aborts => another error.",
         "Trusted: canon() transcribed from the property; reference encoder. Shapes where the first entry lacks an application id are judged by never-clauses only.", "7/C18"),
 "C19": ("exploration", "model-based testing over the C07 histories x ledgers with dangling pre-authorisations x end-of-day outcomes (all 256 abort codes once): trace invariant over the decoded request log",
         "For every accepted commit/cancel of the generated histories the decoded request log is compared with the model: own exchange completed and no token open => exactly pending query -> reversal of the reported receipt (iff one is reported) -> end-of-day(password), Ok on completion or 'receiver not ready' (a0), the abort code otherwise; tokens still open => no pending query and no end-of-day. Dangling pre-authorisations are injected and arise naturally from no-receipt reservations and aborted reversals.",
         "Trusted: model of the clean-up rule (props/c07.rs walk()), simulated terminal's FFFF-query reply (modelled on the captured partial_reversal.blob).", "7/C19"),
 "C20": ("exploration", "exhaustive enumeration: 256 result codes x 16 (operation, exchange) sites x abort position, real client against the simulated terminal; error-identification oracle with an independent result-code table",
         "Every result code is injected as a well-formed abort into every exchange of every public operation in which a terminal may abort (incl. the clean-up sub-exchanges) directly after the acknowledgement and after intermediate packets. The call must fail and its error must identify the code (ZVTError::Aborted(c) in the chain, the number in the text, or for read_card the specification's message from an independent table); the three documented translations are checked positively.",
         "Trusted: own transcription of the chapter-10 result-code table; aborts during the connection handshake are connection failures (C09) and not sites here.", "7/C20"),
}
NOT_YET = {}
def main():
    checks = []
    for pid in ALL:
        if pid not in CHECKS: continue
        cat, tech, text, note, ref = CHECKS[pid]
        checks.append({
            "property_id": pid,
            "quick_cmd": f"./check {pid} quick",
            "thorough_cmd": f"./check {pid} thorough",
            "evidence_file": f"/verif/evidence/{pid}.json",
            "replay_cmd_template": f"./check {pid} --replay {{path}}",
            "engine": "zvtverif",
            "level_claimed": {"category": cat, "text": text, "design_ref": f"DESIGN.md section {ref}"},
            "level_note": note,
            "technique": tech,
        })
    na = [{"property_id": p, "reason": NOT_YET.get(p, "check not built yet (work in progress; DESIGN.md section 7 describes the planned property-based check)")} for p in ALL if p not in CHECKS]
    m = {
        "version": 1,
        "setup_cmd": "./setup.sh",
        "hooks": {
            "guard": "zvt_verif (cargo feature of zvt_feig_terminal)",
            "enable": "harness/Cargo.toml depends on zvt_feig_terminal with features = [\"zvt_verif\"]; nothing else in /repo is guarded",
            "baseline_off_cmd": "cd /repo && CARGO_NET_OFFLINE=true cargo test --workspace --no-fail-fast --offline",
            "source_commits": ["c46e56a"],
            "add_only": True,
        },
        "engines": [{"name": "zvtverif", "path": "harness/", "serves_properties": [c["property_id"] for c in checks],
                     "kind_free_text": "Rust harness: proptest-driven generators, exhaustive enumerators, reference codec + layout table, scripted peer, simulated terminal on tokio paused time; libFuzzer targets under fuzz/"}],
        "checks": checks,
        "not_applicable": na,
        "notes": "All checks: ./check <ID> <quick|thorough>; exit 0 held / 1 VIOLATION / 2 inconclusive. Known findings: KNOWN_FINDINGS.txt. Regression inputs under regressions/<ID>/ are replayed first by every run.",
    }
    if not na: m.pop("not_applicable")
    json.dump(m, open(os.path.join(ROOT, "MANIFEST.json"), "w"), indent=1)
    print("wrote MANIFEST.json:", len(checks), "checks,", len(na), "not claimed")
main()
