#!/bin/bash
# tools/seeded.sh <ID> <agent worktree> [props...]: confirm a seeded change (baseline passes, demo fails with / passes
# without), store it under /verif/seeded/<ID>/, then run the given properties' quick checks against it in /repo.
set -u
ID="$1"; W="$2"; shift 2; PROPS="${*:-}"
ROOT=/verif; D="$ROOT/seeded/$ID"
export CARGO_NET_OFFLINE=true
[ -f "$W/seeded/patch.diff" ] || { echo "no patch in $W/seeded"; exit 2; }
mkdir -p "$D"; cp "$W/seeded/patch.diff" "$D/patch.diff"; rm -rf "$D/demo"; cp -r "$W/seeded/demo" "$D/demo"; cp "$W/seeded/NOTES.md" "$D/NOTES.agent.md" 2>/dev/null
cd "$W"
# make sure the tree has exactly the patch applied
git checkout -q -- . 2>/dev/null; git apply seeded/patch.diff || { echo "patch does not apply"; exit 2; }
demo=$(git ls-files --others --exclude-standard | grep -v '^seeded/' | grep '\.rs$' | tr '\n' ' ')
echo "demo files: $demo"
feat=""; pkg=""
case "$demo" in *zvt_feig_terminal*) pkg="-p zvt_feig_terminal"; feat="--features zvt_verif";; *zvt_builder*) pkg="-p zvt_builder";; *zvt_derive*) pkg="-p zvt_derive";; *) pkg="-p zvt";; esac
tname=$(basename $(echo $demo | awk '{print $1}') .rs)
base=$(cargo test --workspace --no-fail-fast --offline 2>&1 | grep -aE "^test result" | awk '{p+=$4; f+=$6} END {print p" passed "f" failed"}')
with=$(cargo test $pkg $feat --test $tname --offline 2>&1 | grep -aE "^test result" | tail -1)
git apply -R seeded/patch.diff
without=$(cargo test $pkg $feat --test $tname --offline 2>&1 | grep -aE "^test result" | tail -1)
git apply seeded/patch.diff
echo "baseline+demo with patch (workspace run counts the demo too): $base"
echo "demo with patch:    $with"
echo "demo without patch: $without"
cd "$ROOT"
res=""
for p in $PROPS; do
  git -C /repo apply "$D/patch.diff" || { echo "cannot apply to /repo"; exit 2; }
  out=$(./check $p quick 2>&1); code=$?
  git -C /repo checkout -- .
  sig=$(echo "$out" | grep -m1 "sig:" | sed 's/^ *sig: //')
  echo "check $p exit=$code :: $sig"
  res="$res $p=$code"
done
echo "RESULT $ID:$res | base: $base | with: $with | without: $without"
