#!/bin/bash
# tools/benign.sh <patch.diff> [props...]: apply a behaviour-preserving change to /repo, run the quick checks, expect silence, revert.
P="$1"; shift; PROPS="${*:-$(jq -r '.checks[].property_id' /verif/MANIFEST.json)}"
cd /verif; git -C /repo apply "$P" || { echo "cannot apply"; exit 2; }
for id in $PROPS; do out=$(./check $id quick 2>&1); code=$?; if [ $code -ne 0 ]; then echo "ALARM $id exit=$code"; echo "$out" | grep -E "VIOLATION|sig:|BUILD|INCON" | head -4; else echo "silent $id"; fi; done
git -C /repo checkout -- .; git -C /repo status --short | head -2
