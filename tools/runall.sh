#!/bin/bash
# Runs every registered check's quick (or the given) tier; prints one line per property.
cd "$(dirname "$0")/.."
TIER="${1:-quick}"
rc=0
for id in $(jq -r '.checks[].property_id' MANIFEST.json); do
  out=$(./check "$id" "$TIER" 2>&1); code=$?
  echo "$out" | grep -E "^(VIOLATION|KNOWN-FINDING|BUILD-FAILED|INCONCLUSIVE)" 
  echo "$out" | tail -1 | sed "s/^/[$code] /"
  [ $code -ne 0 ] && rc=1
done
exit $rc
