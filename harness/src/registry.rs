//! Bridge to the real types: decode-first, compare by `Debug` (DESIGN.md 5.3).
//! One line per shipped type / reply enum; no struct literals, so a wrong-but-compiling change in /repo
//! becomes a verdict, not a build failure.
use zvt::feig::packets as fp;
use zvt::feig::sequences as fs;
use zvt::packets as p;
use zvt::sequences as s;
use zvt::{ZVTError, ZvtParser, ZvtSerializer};

pub struct Probed {
    pub dbg: String,
    pub rest: usize,
    pub re: Vec<u8>,
    /// serialise -> deserialise returned an equal value with nothing left
    pub again: bool,
    pub again_detail: String,
}
pub type ProbeFn = fn(&[u8]) -> Result<Probed, ZVTError>;
/// decode only: (Debug, rest length)
pub type DecodeFn = fn(&[u8]) -> Result<(String, usize), ZVTError>;
/// decode only, no formatting: rest length
pub type QuietFn = fn(&[u8]) -> Result<usize, ZVTError>;
/// decode both inputs and compare the values with PartialEq; None if either fails
pub type EqFn = fn(&[u8], &[u8]) -> Option<bool>;

pub struct TypeEntry {
    pub name: &'static str,
    pub probe: ProbeFn,
    pub decode: DecodeFn,
    pub quiet: QuietFn,
    pub eq: EqFn,
}

pub fn probe_ty<T: ZvtSerializer + std::fmt::Debug + PartialEq>(b: &[u8]) -> Result<Probed, ZVTError>
where
    zvt::encoding::Default: zvt::encoding::Encoding<T>,
{
    let (v, rest) = T::zvt_deserialize(b)?;
    let re = v.zvt_serialize();
    let (again, again_detail) = match T::zvt_deserialize(&re) {
        Ok((v2, r2)) => {
            if !r2.is_empty() {
                (false, format!("{} bytes left over", r2.len()))
            } else if v2 != v {
                (false, format!("came back as {v2:?}"))
            } else {
                (true, String::new())
            }
        }
        Err(e) => (false, format!("re-decode error {e:?}")),
    };
    Ok(Probed { dbg: format!("{v:?}"), rest: rest.len(), re, again, again_detail })
}
pub fn decode_ty<T: ZvtSerializer + std::fmt::Debug>(b: &[u8]) -> Result<(String, usize), ZVTError>
where
    zvt::encoding::Default: zvt::encoding::Encoding<T>,
{
    let (v, rest) = T::zvt_deserialize(b)?;
    Ok((format!("{v:?}"), rest.len()))
}
pub fn quiet_ty<T: ZvtSerializer>(b: &[u8]) -> Result<usize, ZVTError>
where
    zvt::encoding::Default: zvt::encoding::Encoding<T>,
{
    let (_, rest) = T::zvt_deserialize(b)?;
    // the remainder must be a suffix of the input (usize::MAX signals that it is not)
    let suffix = rest.is_empty() || (rest.len() <= b.len() && rest.as_ptr() as usize + rest.len() == b.as_ptr() as usize + b.len());
    Ok(if suffix { rest.len() } else { usize::MAX })
}
pub fn eq_ty<T: ZvtSerializer + PartialEq>(a: &[u8], b: &[u8]) -> Option<bool>
where
    zvt::encoding::Default: zvt::encoding::Encoding<T>,
{
    let x = T::zvt_deserialize(a).ok()?;
    let y = T::zvt_deserialize(b).ok()?;
    Some(x.0 == y.0)
}

macro_rules! ty {
    ($name:literal, $t:ty) => {
        TypeEntry { name: $name, probe: probe_ty::<$t>, decode: decode_ty::<$t>, quiet: quiet_ty::<$t>, eq: eq_ty::<$t> }
    };
}

pub fn types() -> Vec<TypeEntry> {
    vec![
        ty!("SetTimeAndDate", p::SetTimeAndDate),
        ty!("NumAndTotal", p::NumAndTotal),
        ty!("SingleAmounts", p::SingleAmounts),
        ty!("StatusInformation", p::StatusInformation),
        ty!("IntermediateStatusInformation", p::IntermediateStatusInformation),
        ty!("StatusEnquiry", p::StatusEnquiry),
        ty!("Registration", p::Registration),
        ty!("CompletionData", p::CompletionData),
        ty!("ReceiptPrintoutCompletion", p::ReceiptPrintoutCompletion),
        ty!("ResetTerminal", p::ResetTerminal),
        ty!("PrintSystemConfiguration", p::PrintSystemConfiguration),
        ty!("SetTerminalId", p::SetTerminalId),
        ty!("Abort", p::Abort),
        ty!("ReservationAbort", p::ReservationAbort),
        ty!("PartialReversalAbort", p::PartialReversalAbort),
        ty!("Authorization", p::Authorization),
        ty!("Reservation", p::Reservation),
        ty!("PartialReversal", p::PartialReversal),
        ty!("PreAuthReversal", p::PreAuthReversal),
        ty!("EndOfDay", p::EndOfDay),
        ty!("Diagnosis", p::Diagnosis),
        ty!("Initialization", p::Initialization),
        ty!("ReadCard", p::ReadCard),
        ty!("PrintLine", p::PrintLine),
        ty!("PrintTextBlock", p::PrintTextBlock),
        ty!("SelectLanguage", p::SelectLanguage),
        ty!("Ack", p::Ack),
        ty!("tlv.Subs", p::tlv::Subs),
        ty!("tlv.SubsOnCard", p::tlv::SubsOnCard),
        ty!("tlv.StatusInformation", p::tlv::StatusInformation),
        ty!("tlv.StatusEnquiry", p::tlv::StatusEnquiry),
        ty!("tlv.DeviceInformation", p::tlv::DeviceInformation),
        ty!("tlv.ReceiptPrintoutCompletion", p::tlv::ReceiptPrintoutCompletion),
        ty!("tlv.ReservationAbort", p::tlv::ReservationAbort),
        ty!("tlv.Bmp60", p::tlv::Bmp60),
        ty!("tlv.AuthData", p::tlv::AuthData),
        ty!("tlv.PreAuthData", p::tlv::PreAuthData),
        ty!("tlv.Diagnosis", p::tlv::Diagnosis),
        ty!("tlv.ReadCard", p::tlv::ReadCard),
        ty!("tlv.ZvtString", p::tlv::ZvtString),
        ty!("tlv.TextLines", p::tlv::TextLines),
        ty!("tlv.PrintTextBlock", p::tlv::PrintTextBlock),
        ty!("tlv.Registration", p::tlv::Registration),
        ty!("feig.RequestForData", fp::RequestForData),
        ty!("feig.CVendFunctionsEnhancedSystemInformationCompletion", fp::CVendFunctionsEnhancedSystemInformationCompletion),
        ty!("feig.WriteFile", fp::WriteFile),
        ty!("feig.ChangeConfiguration", fp::ChangeConfiguration),
        ty!("feig.CVendFunctions", fp::CVendFunctions),
        ty!("feig.WriteData", fp::WriteData),
        ty!("feig.tlv.File", fp::tlv::File),
        ty!("feig.tlv.WriteData", fp::tlv::WriteData),
        ty!("feig.tlv.WriteFile", fp::tlv::WriteFile),
        ty!("feig.tlv.HostConfigurationData", fp::tlv::HostConfigurationData),
        ty!("feig.tlv.SystemInformation", fp::tlv::SystemInformation),
        ty!("feig.tlv.ChangeConfiguration", fp::tlv::ChangeConfiguration),
    ]
}

pub type ParseFn = fn(&[u8]) -> Result<String, ZVTError>;
pub type ParseQuietFn = fn(&[u8]) -> Result<(), ZVTError>;
/// read up to n packets from a byte stream through `PacketTransport::read_packet::<Enum>`: per read Ok(Debug) / Err(text)
pub type ReadFn = fn(Vec<u8>, usize, Option<usize>) -> Vec<Result<String, String>>;
pub struct EnumEntry {
    pub name: &'static str,
    pub parse: ParseFn,
    pub quiet: ParseQuietFn,
    pub read: ReadFn,
}
fn read_n<T: ZvtParser + std::fmt::Debug + Send>(data: Vec<u8>, n: usize, interrupt_at: Option<usize>) -> Vec<Result<String, String>> {
    let mut tr = zvt::io::PacketTransport { source: crate::peer::Peer::preloaded(data, vec![], None) };
    tr.source.interrupt_at = interrupt_at;
    (0..n).map(|_| futures::executor::block_on(tr.read_packet::<T>()).map(|v| format!("{v:?}")).map_err(|e| format!("{e:#}"))).collect()
}
fn read_ack(data: Vec<u8>, n: usize, interrupt_at: Option<usize>) -> Vec<Result<String, String>> {
    let mut tr = zvt::io::PacketTransport { source: crate::peer::Peer::preloaded(data, vec![], None) };
    tr.source.interrupt_at = interrupt_at;
    (0..n)
        .map(|_| {
            futures::executor::block_on(tr.read_packet::<zvt::io::Ack>())
                .map(|v| match v {
                    zvt::io::Ack::Ack(p) => format!("Ack({p:?})"),
                })
                .map_err(|e| format!("{e:#}"))
        })
        .collect()
}
fn parse<T: ZvtParser + std::fmt::Debug>(b: &[u8]) -> Result<String, ZVTError> {
    T::zvt_parse(b).map(|v| format!("{v:?}"))
}
fn parse_quiet<T: ZvtParser>(b: &[u8]) -> Result<(), ZVTError> {
    T::zvt_parse(b).map(|_| ())
}
fn parse_ack(b: &[u8]) -> Result<String, ZVTError> {
    zvt::io::Ack::zvt_parse(b).map(|v| match v {
        zvt::io::Ack::Ack(p) => format!("Ack({p:?})"),
    })
}
macro_rules! en {
    ($name:literal, $t:ty) => {
        EnumEntry { name: $name, parse: parse::<$t>, quiet: parse_quiet::<$t>, read: read_n::<$t> }
    };
}
pub fn enums() -> Vec<EnumEntry> {
    vec![
        EnumEntry { name: "io.Ack", parse: parse_ack, quiet: parse_quiet::<zvt::io::Ack>, read: read_ack },
        en!("RegistrationResponse", s::RegistrationResponse),
        en!("ReadCardResponse", s::ReadCardResponse),
        en!("InitializationResponse", s::InitializationResponse),
        en!("SetTerminalIdResponse", s::SetTerminalIdResponse),
        en!("ResetTerminalResponse", s::ResetTerminalResponse),
        en!("DiagnosisResponse", s::DiagnosisResponse),
        en!("EndOfDayResponse", s::EndOfDayResponse),
        en!("AuthorizationResponse", s::AuthorizationResponse),
        en!("PartialReversalResponse", s::PartialReversalResponse),
        en!("PrintSystemConfigurationResponse", s::PrintSystemConfigurationResponse),
        en!("SelectLanguageResponse", s::SelectLanguageResponse),
        en!("StatusEnquiryResponse", s::StatusEnquiryResponse),
        en!("feig.GetSystemInfoResponse", fs::GetSystemInfoResponse),
        en!("feig.WriteFileResponse", fs::WriteFileResponse),
        en!("feig.FactoryResetResponse", fs::FactoryResetResponse),
        en!("feig.ChangeHostConfigurationResponse", fs::ChangeHostConfigurationResponse),
    ]
}

/// Independent table: reply enum -> owned control fields (class, instr, variant name, packet type in the layout table).
/// DESIGN.md Appendix B.
pub fn enum_table() -> Vec<(&'static str, Vec<(u8, u8, &'static str, &'static str)>)> {
    let isi = (0x04, 0xff, "IntermediateStatusInformation", "IntermediateStatusInformation");
    let si = (0x04, 0x0f, "StatusInformation", "StatusInformation");
    let pl = (0x06, 0xd1, "PrintLine", "PrintLine");
    let ptb = (0x06, 0xd3, "PrintTextBlock", "PrintTextBlock");
    let cd = (0x06, 0x0f, "CompletionData", "CompletionData");
    let ab = (0x06, 0x1e, "Abort", "Abort");
    vec![
        ("io.Ack", vec![(0x80, 0x00, "Ack", "Ack")]),
        ("RegistrationResponse", vec![cd]),
        ("ReadCardResponse", vec![isi, si, ab]),
        ("InitializationResponse", vec![isi, pl, ptb, cd, ab]),
        ("SetTerminalIdResponse", vec![cd, ab]),
        ("ResetTerminalResponse", vec![cd]),
        ("DiagnosisResponse", vec![isi, (0x04, 0x01, "SetTimeAndDate", "SetTimeAndDate"), pl, ptb, cd, ab]),
        ("EndOfDayResponse", vec![isi, si, pl, ptb, cd, (0x06, 0x1e, "Abort", "PartialReversalAbort")]),
        ("AuthorizationResponse", vec![isi, si, pl, ptb, cd, ab]),
        ("PartialReversalResponse", vec![isi, si, pl, ptb, cd, (0x06, 0x1e, "PartialReversalAbort", "PartialReversalAbort")]),
        ("PrintSystemConfigurationResponse", vec![pl, ptb, cd]),
        ("SelectLanguageResponse", vec![cd]),
        ("StatusEnquiryResponse", vec![isi, pl, ptb, cd]),
        (
            "feig.GetSystemInfoResponse",
            vec![(0x06, 0x0f, "CVendFunctionsEnhancedSystemInformationCompletion", "feig.CVendFunctionsEnhancedSystemInformationCompletion"), ab],
        ),
        ("feig.WriteFileResponse", vec![cd, (0x04, 0x0c, "RequestForData", "feig.RequestForData"), ab]),
        ("feig.FactoryResetResponse", vec![cd]),
        ("feig.ChangeHostConfigurationResponse", vec![cd, ab]),
    ]
}
