//! C11 — firmware upload sends exactly the requested bytes of the right file.
use crate::engine::*;
use crate::peer::*;
use crate::props::c05::ACK;
use crate::refc::*;
use crate::seqs::*;
use proptest::prelude::*;
use serde::{Deserialize, Serialize};
use serde_json::{json, Value};
use std::sync::Arc;

const P: &str = "C11";

/// My own copy of the 21 recognised files (Feig cVEND manual 6.13, table 2).
pub const RECOGNISED: [(&str, u8); 21] = [
    ("firmware/kernel.gz", 0x10),
    ("firmware/rootfs.gz", 0x11),
    ("firmware/components.tar.gz", 0x12),
    ("firmware/update.spec", 0x13),
    ("firmware/update_extended.spec", 0x14),
    ("app0/update.spec", 0x20),
    ("app0/update.tar.gz", 0x21),
    ("app1/update.spec", 0x22),
    ("app1/update.tar.gz", 0x23),
    ("app2/update.spec", 0x24),
    ("app2/update.tar.gz", 0x25),
    ("app3/update.spec", 0x26),
    ("app3/update.tar.gz", 0x27),
    ("app4/update.spec", 0x28),
    ("app4/update.tar.gz", 0x29),
    ("app5/update.spec", 0x30),
    ("app5/update.tar.gz", 0x31),
    ("app6/update.spec", 0x32),
    ("app6/update.tar.gz", 0x33),
    ("app7/update.spec", 0x34),
    ("app7/update.tar.gz", 0x35),
];
/// unrelated directory entries; the last four are plain FILES named like recognised subdirectories (created only when no
/// recognised file of the case lives in that subdirectory)
pub const UNRELATED: [&str; 9] = ["firmware/readme.txt", "app8/update.spec", "kernel.gz", "app0/update.tar", "firmware/rootfs.gz.bak", "app3", "app7", "firmware", "app0"];

#[derive(Serialize, Deserialize, Clone, Debug)]
pub struct FileSpec {
    /// index into RECOGNISED, or 100 + index into UNRELATED
    pub which: usize,
    pub size: usize,
    pub seed: u8,
    /// the recognised path is a symbolic link to a regular file kept elsewhere in the payload directory
    #[serde(default)]
    pub symlink: bool,
}
#[derive(Serialize, Deserialize, Clone, Debug)]
pub struct Req {
    pub id: u8,
    pub offset: u32,
    /// "" | "no-id" | "no-offset" | "no-file" | "no-tlv"
    pub malformed: String,
}
#[derive(Serialize, Deserialize, Clone, Debug)]
pub struct UploadCase {
    pub files: Vec<FileSpec>,
    pub block: u32,
    pub password: u32,
    pub requests: Vec<Req>,
    /// "completion" | "abort"
    pub ending: String,
    pub chunks: Vec<usize>,
    /// the connection accepts at most this many bytes per write
    #[serde(default)]
    pub write_limit: Option<usize>,
}

fn content(seed: u8, size: usize) -> Vec<u8> {
    let mut x = (seed as u32).wrapping_mul(2654435761u32) | 1;
    (0..size)
        .map(|_| {
            x ^= x << 13;
            x ^= x >> 17;
            x ^= x << 5;
            (x >> 8) as u8
        })
        .collect()
}

fn file_val(id: Option<u8>, offset: Option<u32>) -> Val {
    let o = |x: Option<u64>| x.map(|v| Val::Some(Box::new(Val::U(v)))).unwrap_or(Val::None);
    Val::St("feig.tlv.File".into(), vec![("file_id".into(), o(id.map(|v| v as u64))), ("file_offset".into(), o(offset.map(|v| v as u64))), ("file_size".into(), Val::None), ("payload".into(), Val::None)])
}
pub fn request_bytes(t: &Table, r: &Req) -> Vec<u8> {
    let file = match r.malformed.as_str() {
        "no-id" => Some(file_val(None, Some(r.offset))),
        "no-offset" => Some(file_val(Some(r.id), None)),
        "no-file" | "no-tlv" => None,
        _ => Some(file_val(Some(r.id), Some(r.offset))),
    };
    let wd = Val::St("feig.tlv.WriteData".into(), vec![("file".into(), file.map(|f| Val::Some(Box::new(f))).unwrap_or(Val::None))]);
    let tlv = if r.malformed == "no-tlv" { Val::None } else { Val::Some(Box::new(wd)) };
    let v = Val::St("feig.RequestForData".into(), vec![("tlv".into(), tlv)]);
    encode(t, &t["feig.RequestForData"], &v).unwrap()
}
fn field<'a>(v: &'a Val, name: &str) -> Option<&'a Val> {
    if let Val::St(_, fs) = v {
        fs.iter().find(|(k, _)| k == name).map(|(_, v)| v)
    } else {
        None
    }
}
fn some(v: &Val) -> Option<&Val> {
    match v {
        Val::Some(b) => Some(b),
        _ => None,
    }
}
fn num(v: &Val) -> Option<u64> {
    match v {
        Val::U(x) => Some(*x),
        _ => None,
    }
}

pub fn check_upload(t: &Table, c: &UploadCase) -> CheckResult {
    let input = serde_json::to_value(c).unwrap();
    let v = |kind: &str, detail: String| Err(Violation::new("upload", format!("C11 kind={kind}"), detail, input.clone()));
    // build the payload directory
    let dir = tempfile::Builder::new().prefix("zvtverif-c11-").tempdir().map_err(|e| Violation::new("upload", "C11 kind=harness-io".to_string(), e.to_string(), input.clone()))?;
    let mut present: std::collections::BTreeMap<u8, Vec<u8>> = Default::default();
    // recognised files first, then the unrelated entries (a stray file named like a subdirectory only if that name is free)
    for f in c.files.iter().filter(|f| f.which < 100).chain(c.files.iter().filter(|f| f.which >= 100)) {
        let rel = if f.which < 100 { RECOGNISED[f.which % 21].0 } else { UNRELATED[(f.which - 100) % UNRELATED.len()] };
        let p = dir.path().join(rel);
        if f.which >= 100 && (p.exists() || p.parent().map(|d| d.is_file()).unwrap_or(false)) {
            continue;
        }
        std::fs::create_dir_all(p.parent().unwrap()).ok();
        let data = content(f.seed, f.size);
        let _ = std::fs::remove_file(&p);
        if f.symlink && f.which < 100 {
            let store = dir.path().join("releases");
            std::fs::create_dir_all(&store).ok();
            let target = store.join(format!("blob-{}", f.which % 21));
            std::fs::write(&target, &data).map_err(|e| Violation::new("upload", "C11 kind=harness-io".to_string(), e.to_string(), input.clone()))?;
            std::os::unix::fs::symlink(&target, &p).map_err(|e| Violation::new("upload", "C11 kind=harness-io".to_string(), e.to_string(), input.clone()))?;
        } else {
            std::fs::write(&p, &data).map_err(|e| Violation::new("upload", "C11 kind=harness-io".to_string(), e.to_string(), input.clone()))?;
        }
        if f.which < 100 {
            present.insert(RECOGNISED[f.which % 21].1, data);
        }
    }
    // script
    let mut script = vec![ACK.to_vec()];
    let mut expect_err_at: Option<usize> = None; // index of the request that must end the upload with an error
    for (k, r) in c.requests.iter().enumerate() {
        script.push(request_bytes(t, r));
        if !r.malformed.is_empty() || !present.contains_key(&r.id) {
            expect_err_at = Some(k);
            break;
        }
    }
    let n_req = script.len() - 1;
    if expect_err_at.is_none() {
        script.push(if c.ending == "abort" { vec![0x06, 0x1e, 0x01, 0x6c] } else { vec![0x06, 0x0f, 0x00] });
    }
    let mut peer = Peer::scripted(script.clone(), vec![0xde, 0xad], c.chunks.clone());
    peer.write_limit = c.write_limit;
    let run = guard(|| run_write_file(dir.path().to_path_buf(), c.password as usize, c.block, peer, script.len() + 3)).map_err(|p| Violation::new("upload", "C11 kind=panic".to_string(), p, input.clone()))?;
    let show = |i: &Option<Result<String, String>>| match i {
        None => "None".to_string(),
        Some(Ok(d)) => format!("Ok({})", clip(d, 160)),
        Some(Err(e)) => format!("Err({})", clip(e, 160)),
    };
    if present.is_empty() {
        // an error before any byte is sent
        let wrote = run.peer.with(|p| p.log.iter().any(|e| matches!(e, Ev::Write(_))));
        return match run.snaps.first().map(|s| &s.item) {
            Some(Some(Err(_))) if !wrote => Ok(()),
            other => v("empty-directory-not-refused", format!("no recognised file present: first item {} ({}bytes written)", other.map(show).unwrap_or("nothing".into()), if wrote { "some " } else { "no " })),
        };
    }
    let apdus: Vec<Vec<u8>> = run.peer.with(|p| p.client_apdus.clone());
    // 1. the announcement
    let Some(first) = apdus.first() else { return v("nothing-sent", format!("no packet written; first item {}", run.snaps.first().map(|s| show(&s.item)).unwrap_or("nothing".into()))) };
    let Ok((ann, rest)) = decode(t, &t["feig.WriteFile"], first) else { return v("announcement-undecodable", format!("first packet {} is not a WriteFile announcement", clip(&hex(first), 200))) };
    if !rest.is_empty() {
        return v("announcement-undecodable", "bytes left over in the announcement".into());
    }
    if field(&ann, "password").and_then(num) != Some(c.password as u64) {
        return v("announcement-password", format!("announcement carries password {:?}, configured {}", field(&ann, "password"), c.password));
    }
    let mut listed: Vec<(u64, u64)> = vec![];
    if let Some(Val::List(files)) = field(&ann, "tlv").and_then(some).and_then(|w| field(w, "files")) {
        for f in files {
            let id = field(f, "file_id").and_then(some).and_then(num);
            let size = field(f, "file_size").and_then(some).and_then(num);
            if field(f, "payload") != Some(&Val::None) || field(f, "file_offset") != Some(&Val::None) {
                return v("announcement-extra-fields", format!("announced file carries payload/offset: {}", render(f)));
            }
            match (id, size) {
                (Some(i), Some(s)) => listed.push((i, s)),
                _ => return v("announcement-incomplete-entry", format!("announced file without id or size: {}", render(f))),
            }
        }
    }
    listed.sort();
    let want: Vec<(u64, u64)> = present.iter().map(|(k, d)| (*k as u64, d.len() as u64)).collect();
    if listed != want {
        return v("announcement-file-list", format!("announced (id, size) {:x?}; recognised files present {:x?}", listed, want));
    }
    // 2. requests
    let good = expect_err_at.unwrap_or(n_req);
    let mut boundary = 3usize;
    for k in 0..good {
        boundary += script[k + 1].len();
        let r = &c.requests[k];
        let Some(sn) = run.snaps.get(k) else { return v("stream-ended-early", format!("{} items for {good} answerable requests", run.snaps.len())) };
        let (rv, _) = decode(t, &t["feig.RequestForData"], &script[k + 1]).unwrap();
        let want_item = format!("RequestForData({})", render(&rv));
        match &sn.item {
            Some(Ok(d)) if *d == want_item => {}
            other => return v("wrong-item", format!("request {k} (id {:#x}, offset {}): item {}", r.id, r.offset, show(other))),
        }
        if sn.client_apdus != k + 2 {
            return v("request-not-answered-once", format!("when request {k} was handed over, {} packets had been written; expected the announcement and {} data blocks", sn.client_apdus, k + 1));
        }
        if sn.delivered != boundary {
            return v("read-beyond-current-packet", format!("when request {k} was handed over the client had read {} bytes; the request ends at {boundary}", sn.delivered));
        }
        let Some(ans) = apdus.get(k + 1) else { return v("request-not-answered-once", "missing answer".into()) };
        let Ok((wd, rest)) = decode(t, &t["feig.WriteData"], ans) else { return v("answer-not-writedata", format!("answer to request {k}: {}", clip(&hex(ans), 120))) };
        let file = field(&wd, "tlv").and_then(some).and_then(|w| field(w, "file")).and_then(some);
        let Some(file) = file else { return v("answer-not-writedata", format!("answer to request {k} has no file container: {}", clip(&hex(ans), 120))) };
        let data = &present[&r.id];
        let from = (r.offset as usize).min(data.len());
        let to = (r.offset as usize).saturating_add(c.block as usize).min(data.len());
        let slice = &data[from..to];
        let got_id = field(file, "file_id").and_then(some).and_then(num);
        let got_off = field(file, "file_offset").and_then(some).and_then(num);
        let got_payload: Vec<u8> = match field(file, "payload").and_then(some) {
            Some(Val::B(b)) => b.clone(),
            _ => vec![],
        };
        if !rest.is_empty() || got_id != Some(r.id as u64) || got_off != Some(r.offset as u64) || field(file, "file_size") != Some(&Val::None) {
            return v("answer-wrong-id-or-offset", format!("request (id {:#x}, offset {}) answered with id {:x?} offset {:?} size {:?}", r.id, r.offset, got_id, got_off, field(file, "file_size")));
        }
        if got_payload != slice {
            let first_diff = got_payload.iter().zip(slice).position(|(a, b)| a != b);
            return v(
                "answer-wrong-bytes",
                format!("request (id {:#x}, offset {}, block {}, file size {}): payload of {} bytes, expected file[{from}..{to}] = {} bytes; first difference at {:?}", r.id, r.offset, c.block, data.len(), got_payload.len(), slice.len(), first_diff),
            );
        }
    }
    // 3. the end
    match expect_err_at {
        Some(k) => {
            match run.snaps.get(k).map(|s| &s.item) {
                Some(Some(Err(_))) => {}
                other => return v("bad-request-not-refused", format!("request {k} ({:?}) must end the upload with an error; item {}", c.requests[k], other.map(show).unwrap_or("nothing".into()))),
            }
            if !matches!(run.snaps.get(k + 1).map(|s| &s.item), Some(None)) {
                return v("continues-after-error", format!("after the error the stream yielded {}", run.snaps.get(k + 1).map(|s| show(&s.item)).unwrap_or("nothing".into())));
            }
            if apdus.len() != k + 1 || run.peer.with(|p| !p.outbuf.is_empty()) {
                return v("data-sent-for-bad-request", format!("request {k} ({:?}) was answered: {} packets written, expected {}", c.requests[k], apdus.len(), k + 1));
            }
        }
        None => {
            let k = n_req;
            let want = if c.ending == "abort" { "Abort(Abort { error: 108 })" } else { "CompletionData(CompletionData { result_code: None, status_byte: None, terminal_id: None, currency: None })" };
            match run.snaps.get(k).map(|s| &s.item) {
                Some(Some(Ok(d))) if d == want => {}
                other => return v("wrong-final-item", format!("final item {} expected {want}", other.map(show).unwrap_or("nothing".into()))),
            }
            if !matches!(run.snaps.get(k + 1).map(|s| &s.item), Some(None)) || !matches!(run.snaps.get(k + 2).map(|s| &s.item), Some(None)) {
                return v("does-not-end-after-final-packet", "stream continues after completion/abort".into());
            }
            if apdus.len() != k + 2 || apdus[k + 1][..] != ACK {
                return v("final-packet-not-acknowledged", format!("{} packets written, expected {} with a final acknowledgement", apdus.len(), k + 2));
            }
            if run.peer.with(|p| p.unread() != [0xde, 0xad]) {
                return v("read-beyond-final-packet", "bytes behind the final packet were consumed".into());
            }
        }
    }
    Ok(())
}

/// C06 for the upload stream: good requests, then one fault at `pos` (0 = instead of the acknowledgement of the
/// announcement, j = instead of the j-th request). Exactly one error, then silence: no data block, no acknowledgement.
pub fn check_upload_fault(t: &Table, c: &UploadCase, pos: usize, kind: &str, fault: &[u8]) -> CheckResult {
    let input = json!({"case": c, "pos": pos, "kind": kind, "fault": hex(fault)});
    let v = |k: &str, detail: String| Err(Violation::new("upload-fault", format!("C06 seq=feig.WriteFile fault={kind} kind={k}"), detail, input.clone()));
    let dir = tempfile::Builder::new().prefix("zvtverif-c06-").tempdir().map_err(|e| Violation::new("upload-fault", "C06 kind=harness-io".to_string(), e.to_string(), input.clone()))?;
    let mut present: std::collections::BTreeMap<u8, Vec<u8>> = Default::default();
    for f in &c.files {
        if f.which >= 100 {
            continue;
        }
        let p = dir.path().join(RECOGNISED[f.which % 21].0);
        std::fs::create_dir_all(p.parent().unwrap()).ok();
        let data = content(f.seed, f.size);
        std::fs::write(&p, &data).ok();
        present.insert(RECOGNISED[f.which % 21].1, data);
    }
    if present.is_empty() {
        return Ok(());
    }
    let before = if pos == 0 { 0 } else { pos - 1 };
    if c.requests.len() < before || c.requests[..before].iter().any(|r| !r.malformed.is_empty() || !present.contains_key(&r.id)) {
        return Ok(());
    }
    let mut script: Vec<Vec<u8>> = vec![];
    if pos == 0 {
        script.push(fault.to_vec());
    } else {
        script.push(ACK.to_vec());
        for r in &c.requests[..before] {
            script.push(request_bytes(t, r));
        }
        script.push(fault.to_vec());
    }
    // a terminal that sent a complete wrong packet carries on with a completion
    if fault.len() >= 3 {
        script.push(vec![0x06, 0x0f, 0x00]);
    }
    let peer = Peer::scripted(script, vec![], c.chunks.clone());
    let run = guard(|| run_write_file(dir.path().to_path_buf(), c.password as usize, c.block, peer, before + 4)).map_err(|p| Violation::new("upload-fault", "C06 seq=feig.WriteFile kind=panic".to_string(), p, input.clone()))?;
    for k in 0..before {
        if !matches!(run.snaps.get(k).map(|s| &s.item), Some(Some(Ok(_)))) {
            return v("wrong-item-before-fault", format!("item {k}: {:?}", run.snaps.get(k).map(|s| &s.item)));
        }
    }
    if !matches!(run.snaps.get(before).map(|s| &s.item), Some(Some(Err(_)))) {
        return v("fault-not-reported", format!("{kind} at position {pos} ({}): item {:?} where exactly one error is due", clip(&hex(fault), 60), run.snaps.get(before).map(|s| &s.item)));
    }
    let err_log = run.snaps[before].log_len;
    for k in before + 1..before + 3 {
        match run.snaps.get(k) {
            Some(sn) if sn.item.is_none() && sn.log_len == err_log => {}
            other => return v("activity-after-error", format!("after the error: {:?}", other.map(|s| (&s.item, s.log_len - err_log)))),
        }
    }
    let (n, stray) = run.peer.with(|p| (p.client_apdus.len(), p.outbuf.len()));
    if n != pos.max(1) || stray != 0 {
        return v("wrote-after-fault", format!("{kind} at position {pos}: {n} packets written (+{stray} stray bytes), expected {} (the announcement and one data block per good request)", pos.max(1)));
    }
    Ok(())
}

pub fn replay(_check: &str, i: &Value) -> Option<CheckResult> {
    let _g = Quiet::new();
    Some(check_upload(&crate::table(), &serde_json::from_value(i.clone()).ok()?))
}

fn replay_noquiet(_check: &str, i: &Value) -> Option<CheckResult> {
    Some(check_upload(&crate::table(), &serde_json::from_value(i.clone()).ok()?))
}

/// Redirects the process's stdout to /dev/null while alive (the code under test `println!`s per block).
pub struct Quiet {
    saved: i32,
}
impl Quiet {
    pub fn new() -> Self {
        use std::io::Write;
        let _ = std::io::stdout().flush();
        unsafe {
            let saved = libc::dup(1);
            let null = libc::open(b"/dev/null\0".as_ptr() as *const libc::c_char, libc::O_WRONLY);
            if null >= 0 {
                libc::dup2(null, 1);
                libc::close(null);
            }
            Quiet { saved }
        }
    }
}
impl Drop for Quiet {
    fn drop(&mut self) {
        use std::io::Write;
        let _ = std::io::stdout().flush();
        unsafe {
            if self.saved >= 0 {
                libc::dup2(self.saved, 1);
                libc::close(self.saved);
            }
        }
    }
}

fn size_strategy(block: u32, max: usize) -> BoxedStrategy<usize> {
    let b = block as usize;
    prop_oneof![
        2 => Just(0usize),
        2 => Just(1usize),
        2 => Just(b.saturating_sub(1).min(max)),
        2 => Just(b.min(max)),
        2 => Just((b + 1).min(max)),
        2 => (1usize..5).prop_map(move |k| (k * b).min(max)),
        4 => (0usize..=max),
        // sizes that do not fit 16 bits (announced size is a 32-bit field)
        1 => proptest::sample::select(vec![65_535usize, 65_536, 65_537, 70_000, 131_072]),
    ]
    .boxed()
}

/// Generator of whole upload cases (payload directory, block size, password, request script, ending, chunking).
pub fn upload_case_strategy(max_size: usize) -> BoxedStrategy<UploadCase> {
    let block = prop_oneof![
        3 => proptest::sample::select(vec![1u32, 2, 127, 128, 129, 254, 255, 256, 257, 1024, 32768]),
        2 => 1u32..=32768,
        2 => 1u32..=600,
    ];
    let strat = block.prop_flat_map(move |block| {
        let file = (prop_oneof![6 => 0usize..21, 1 => 100usize..105, 1 => 105usize..109], size_strategy(block, max_size), any::<u8>(), prop::bool::weighted(0.12)).prop_map(|(which, size, seed, symlink)| FileSpec { which, size, seed, symlink });
        let req = (
            prop_oneof![8 => proptest::sample::select(RECOGNISED.iter().map(|r| r.1).collect::<Vec<u8>>()), 1 => any::<u8>()],
            prop_oneof![
                3 => Just(0u32),
                3 => (0u32..8).prop_map(move |k| k.saturating_mul(block)),
                3 => 0u32..(max_size as u32 + 10),
                1 => proptest::sample::select(vec![u32::MAX, 1 << 31, (1u32 << 31) + 5, 0x7fff_ffff]),
            ],
            prop_oneof![150 => Just(""), 1 => Just("no-id"), 1 => Just("no-offset"), 1 => Just("no-file"), 1 => Just("no-tlv")],
            any::<u16>(),
        );
        (
            // mostly up to five payload files; one case in seven announces 9 .. 21 (more than a handful of open handles)
            prop_oneof![6 => proptest::collection::vec(file.clone(), 0..6), 1 => proptest::collection::vec(file, 9..22)],
            Just(block),
            0u32..=999_999,
            proptest::collection::vec(req, 0..30),
            prop_oneof![3 => Just("completion"), 1 => Just("abort")],
            prop_oneof![3 => Just(vec![]), 1 => Just(vec![1usize]), 1 => proptest::collection::vec(1usize..40, 1..5)],
            // 0 = free script; otherwise the ordinary upload: every present file (in an order drawn here) fetched front to back
            prop_oneof![2 => Just(0u16), 1 => 1u16..=u16::MAX],
        )
    });
    strat
        .prop_map(|(files, block, password, reqs, ending, chunks, sequential)| {
            // requests: mostly aimed at files that exist, offsets relative to their sizes
            let present = present_of(&files);
            if sequential != 0 && !present.is_empty() {
                let mut order: Vec<(u8, usize)> = present.clone();
                order.sort();
                order.dedup_by_key(|p| p.0);
                let rot = sequential as usize % order.len();
                order.rotate_left(rot);
                let mut requests = vec![];
                'files: for (id, _) in &order {
                    // the size on disk is that of the last spec for this id
                    let size = present.iter().rev().find(|p| p.0 == *id).unwrap().1;
                    let mut off = 0usize;
                    // many files: the first blocks of each only, so that the script gets round to all of them
                    let (cap, per_file) = if order.len() >= 9 { (80, 3) } else { (48, usize::MAX) };
                    let mut n = 0usize;
                    loop {
                        if requests.len() >= cap {
                            break 'files;
                        }
                        requests.push(Req { id: *id, offset: off as u32, malformed: String::new() });
                        n += 1;
                        if off >= size || n >= per_file {
                            break;
                        }
                        off += block as usize;
                    }
                }
                let write_limit = match sequential % 7 { 0 => Some(1usize), 1 => Some(64), 2 => Some(1000), _ => None };
                return UploadCase { files, block, password, requests, ending: ending.to_string(), chunks, write_limit };
            }
            let requests: Vec<Req> = reqs
                .iter()
                .map(|(id, off, mal, sel)| {
                    let (id, size) = if !present.is_empty() && sel % 40 != 0 { present[(*sel as usize * present.len()) >> 16] } else { (*id, 0) };
                    let offset = match sel % 5 {
                        0 => size.saturating_sub(1) as u32,
                        1 => size as u32,
                        2 => size as u32 + 1,
                        _ => *off,
                    };
                    Req { id, offset, malformed: mal.to_string() }
                })
                .collect();
            UploadCase { files, block, password, requests, ending: ending.to_string(), chunks, write_limit: None }
        })
        .boxed()
}
pub fn present_of(files: &[FileSpec]) -> Vec<(u8, usize)> {
    files.iter().filter(|f| f.which < 100).map(|f| (RECOGNISED[f.which % 21].1, f.size)).collect()
}

pub fn run(tier: Tier) -> i32 {
    let ctx = Ctx::new(P, "exploration", tier);
    let mut stats = Stats::new();
    stats.sample_cap = 6;
    let quiet = Quiet::new();
    crate::run_regressions(&ctx, &mut stats, replay_noquiet);
    let t: Arc<Table> = crate::table();
    let max_size: usize = tier.pick(16 << 10, 200 << 10);
    let ncases: u32 = tier.pick(8_000, 150_000);
    let s = ctx.shards("upload", 32, |_i, seed, st| {
        let strat = upload_case_strategy(max_size);
        ctx.proptest(seed, ncases / 32, &strat, st, |c, st| {
            let present = present_of(&c.files);
            let (files, block) = (&c.files, &c.block);
            let distinct_present: std::collections::BTreeSet<u8> = present.iter().map(|p| p.0).collect();
            let crosses_eof = c.requests.iter().any(|r| r.offset > 0 && present.iter().any(|(id, size)| *id == r.id && (r.offset as usize) < *size && r.offset as usize + *block as usize > *size));
            st.case(distinct_present.len() >= 2 && crosses_eof, fnv(&serde_json::to_vec(&c).unwrap()));
            if distinct_present.is_empty() {
                st.class("no-recognised-file");
            }
            if c.requests.iter().any(|r| !r.malformed.is_empty()) {
                st.class("malformed-request");
            }
            if c.requests.iter().any(|r| r.malformed.is_empty() && !distinct_present.contains(&r.id)) {
                st.class("unannounced-id");
            }
            if crosses_eof {
                st.class("block-crosses-end-of-file");
            }
            {
                let mut ids: Vec<u8> = c.requests.iter().filter(|r| present.iter().any(|(id, _)| *id == r.id)).map(|r| r.id).collect();
                ids.sort();
                ids.dedup();
                if ids.len() >= 9 {
                    st.class("requests-for->=9-distinct-files");
                }
            }
            if c.requests.len() >= 3 && c.requests.windows(2).filter(|w| w[0].id == w[1].id && w[1].offset == w[0].offset.wrapping_add(c.block)).count() >= 2 {
                st.class("front-to-back-run");
                if c.requests.windows(2).any(|w| w[0].id == w[1].id && w[1].offset > 8192 && w[1].offset == w[0].offset.wrapping_add(c.block)) {
                    st.class("front-to-back-run:beyond-8-KiB");
                }
            }
            if c.requests.iter().any(|r| present.iter().any(|(id, size)| *id == r.id && r.offset as usize >= *size)) {
                st.class("offset-at-or-after-eof");
            }
            if c.write_limit.is_some() {
                st.class("short-writes");
            }
            if files.iter().any(|f| f.symlink && f.which < 100) {
                st.class("recognised-file-is-a-symbolic-link");
            }
            if files.iter().any(|f| f.which >= 105) {
                st.class("stray-file-named-like-a-recognised-subdirectory");
            }
            if files.iter().any(|f| f.which >= 100) {
                st.class("unrelated-file-present");
            }
            if st.samples.len() < 1 && distinct_present.len() >= 2 && c.requests.len() >= 2 {
                st.sample(|| serde_json::to_value(&c).unwrap());
            }
            check_upload(&t, c)
        });
    });
    stats.merge(s);
    drop(quiet);
    ctx.finish(
        stats,
        "proptest: payload directories (any subset of the 21 recognised paths + unrelated files, among them plain files named like recognised subdirectories; recognised files may be symbolic links to regular files; sizes 0, 1, block-1, block, block+1, k*block, random; pseudo-random content) x block sizes 1..32768 (biased to 1, 2, 127..129, 254..257, 1024, 32768) x passwords x request scripts (a third: the ordinary upload, every present file fetched front to back, up to 48 requests; otherwise 0..30 free requests: announced, unannounced and never-recognised ids; offsets 0, block multiples, size-1, size, size+1, random, > 2^31; repeated and overlapping; optionally lacking id / offset / file container / TLV) ending in completion or abort. Oracle (reference codec on the client's packets): announcement = exactly the recognised files present with true sizes and the password; each good request answered once with id, offset and file[offset..min(offset+block,size)] bit-identical; bad requests end the upload with one error and no data; completion/abort acknowledged, trailing bytes unread. non-trivial = >= 2 recognised files and a request with offset > 0 whose block crosses end of file; distinct by the whole case",
        &["files are created in a fresh temporary directory per case and removed afterwards; stdout of the code under test is redirected to /dev/null during the run", "my own copy of the 21-entry file-id table (RECOGNISED)"],
        false,
    )
}
