//! C04 — packets are read from a byte stream exactly at APDU boundaries; writer and reader agree on the length header.
use crate::engine::*;
use crate::gen::*;
use crate::peer::*;
use crate::refc::*;
use crate::registry::types;
use futures::executor::block_on;
use proptest::prelude::*;
use serde::{Deserialize, Serialize};
use serde_json::{json, Value};
use zvt::io::PacketTransport;
use zvt::{encoding, Zvt, ZVTResult, ZvtParser};

const P: &str = "C04";

/// Returns precisely what the transport framed, independent of any packet decoder.
pub struct RawFrame(pub Vec<u8>);
impl ZvtParser for RawFrame {
    fn zvt_parse(bytes: &[u8]) -> ZVTResult<Self> {
        Ok(RawFrame(bytes.to_vec()))
    }
}

/// A reply parser in the style of the derived reply enums: control fields with an odd instruction byte are outside its reply
/// set (WrongTag, also when probed with the two control-field bytes only), the others are returned as framed.
pub struct Picky(pub Vec<u8>);
impl ZvtParser for Picky {
    fn zvt_parse(bytes: &[u8]) -> ZVTResult<Self> {
        if bytes.len() < 2 {
            return Err(zvt::ZVTError::IncompleteData);
        }
        if bytes[1] & 1 == 1 {
            return Err(zvt::ZVTError::WrongTag(zvt::Tag(0)));
        }
        if bytes.len() < 3 {
            return Err(zvt::ZVTError::IncompleteData);
        }
        Ok(Picky(bytes.to_vec()))
    }
}

/// Harness command with a body of any exact length (hex text -> bytes), control field 0e 0b (unused by the protocol).
#[derive(Debug, PartialEq, Zvt)]
#[zvt_control_field(class = 0x0e, instr = 0x0b)]
pub struct Blob {
    #[zvt_bmp(encoding = encoding::Hex)]
    pub data: String,
}
pub const BLOB_CTRL: (u8, u8) = (0x0e, 0x0b);

fn ref_frame(class: u8, instr: u8, body: &[u8]) -> Vec<u8> {
    let mut o = vec![class, instr];
    if body.len() < 255 {
        o.push(body.len() as u8);
    } else {
        o.push(0xff);
        o.push((body.len() & 0xff) as u8);
        o.push((body.len() >> 8) as u8);
    }
    o.extend_from_slice(body);
    o
}
fn blob_body(len: usize, salt: u8) -> Vec<u8> {
    (0..len).map(|i| (i as u8).wrapping_mul(31).wrapping_add(salt)).collect()
}

#[derive(Serialize, Deserialize, Clone, Debug)]
pub struct StreamCase {
    /// hex of each packet
    pub packets: Vec<String>,
    /// chunk schedule (cycled); empty = everything at once
    pub chunks: Vec<usize>,
    /// the stream ends after this many bytes
    pub eof: Option<usize>,
    /// read with a parser that rejects part of the control fields (`Picky`): a rejected packet is consumed all the same
    #[serde(default)]
    pub picky: bool,
    /// after this many bytes one read fails with ErrorKind::Interrupted (the data behind it stays available): the reader may
    /// report the error, or carry on correctly - it may not return anything but the packets that were sent
    #[serde(default)]
    pub interrupt_at: Option<usize>,
}

pub fn check_stream(c: &StreamCase) -> CheckResult {
    let input = serde_json::to_value(c).unwrap();
    let packets: Vec<Vec<u8>> = c.packets.iter().map(|h| unhex(h)).collect();
    let data: Vec<u8> = packets.concat();
    let total = data.len();
    let mut tr = PacketTransport { source: Peer::preloaded(data, c.chunks.clone(), c.eof) };
    tr.source.interrupt_at = c.interrupt_at;
    let mut end = 0usize;
    let mut start;
    let mut log_from = 0usize;
    for (i, p) in packets.iter().enumerate() {
        start = end;
        end += p.len();
        let foreign = c.picky && p.len() >= 2 && p[1] & 1 == 1;
        let res = guard(|| if c.picky { block_on(tr.read_packet::<Picky>()).map(|x| RawFrame(x.0)) } else { block_on(tr.read_packet::<RawFrame>()) }).map_err(|e| Violation::new("stream", "C04 kind=panic".to_string(), e, input.clone()))?;
        let complete = c.eof.map_or(true, |e| end <= e);
        // no read may ask for more than what remains of the current packet
        let mut pos = start;
        for ev in &tr.source.log[log_from..] {
            if let Ev::Read { asked, got } = ev {
                // a correct reader asks for at most the rest of the current header or body
                if complete && pos + asked > end {
                    return Err(Violation::new("stream", "C04 kind=read-ahead".to_string(), format!("while reading packet {i} (bytes {start}..{end}) the reader asked for {asked} bytes at offset {pos}: beyond the packet's end"), input));
                }
                pos += got;
            }
        }
        log_from = tr.source.log.len();
        // the interrupted read may be reported as an error: nothing further is demanded of this stream
        if complete && res.is_err() && c.interrupt_at.map(|at| at >= start && at < end).unwrap_or(false) {
            return Ok(());
        }
        if complete && foreign {
            // outside the parser's reply set: an error, and the packet is consumed exactly like any other
            if let Ok(RawFrame(f)) = &res {
                return Err(Violation::new("stream", "C04 kind=foreign-packet-returned".to_string(), format!("packet {i}: the parser rejects its control field, yet read_packet returned {}", clip(&hex(f), 120)), input));
            }
            if tr.source.delivered() != end {
                return Err(Violation::new("stream", "C04 kind=rejected-packet-not-consumed".to_string(), format!("packet {i} ({} bytes, control field outside the parser's reply set) was rejected after {} of its bytes were consumed (stream offset {}, the packet ends at {end}): the rest would be read as the next packet", p.len(), tr.source.delivered().saturating_sub(start), tr.source.delivered()), input));
            }
            continue;
        }
        match (complete, res) {
            (true, Ok(RawFrame(f))) => {
                if f != *p {
                    return Err(Violation::new("stream", "C04 kind=wrong-frame".to_string(), format!("packet {i}: returned {} expected {}", clip(&hex(&f), 200), clip(&hex(p), 200)), input));
                }
                if tr.source.delivered() != end {
                    return Err(Violation::new("stream", "C04 kind=cursor-not-at-boundary".to_string(), format!("after packet {i} the reader consumed {} bytes, the packet ends at {end}", tr.source.delivered()), input));
                }
            }
            // the interrupted read may be reported as an error: nothing further is demanded of this stream
            (true, Err(_)) if c.interrupt_at.map(|at| at >= start && at < end).unwrap_or(false) => return Ok(()),
            (true, Err(e)) => return Err(Violation::new("stream", "C04 kind=complete-packet-rejected".to_string(), format!("packet {i} ({}) is complete in the stream but read_packet failed: {e}", clip(&hex(p), 120)), input)),
            (false, Ok(RawFrame(f))) => return Err(Violation::new("stream", "C04 kind=packet-from-truncated-stream".to_string(), format!("the stream ends after {} bytes, inside packet {i} (bytes {start}..{end}), yet read_packet returned {}", c.eof.unwrap(), clip(&hex(&f), 200)), input)),
            (false, Err(_)) => return Ok(()),
        }
    }
    // one more read at the boundary where the stream ends: an error, never a packet
    let res = guard(|| block_on(tr.read_packet::<RawFrame>())).map_err(|e| Violation::new("stream", "C04 kind=panic".to_string(), e, input.clone()))?;
    if let Ok(RawFrame(f)) = res {
        return Err(Violation::new("stream", "C04 kind=packet-from-ended-stream".to_string(), format!("all {total} bytes consumed, stream ended, read_packet returned {}", hex(&f)), input));
    }
    Ok(())
}

/// Header agreement for one body length: writer emits the reference header; reader returns the same frame.
pub fn check_header(len: usize) -> CheckResult {
    let input = json!({"body_len": len});
    let body = blob_body(len, len as u8);
    let want = ref_frame(BLOB_CTRL.0, BLOB_CTRL.1, &body);
    let blob = Blob { data: hex(&body) };
    let mut w = PacketTransport { source: Sink::default() };
    guard(|| block_on(w.write_packet(&blob))).map_err(|e| Violation::new("header", "C04 kind=writer-panic".to_string(), e, input.clone()))?.map_err(|e| Violation::new("header", "C04 kind=writer-error".to_string(), e.to_string(), input.clone()))?;
    if w.source.0 != want {
        let n = w.source.0.len().min(6);
        return Err(Violation::new("header", "C04 kind=writer-header".to_string(), format!("write_packet(body of {len} bytes) starts with {} ({} bytes in all); expected header {} ({} bytes in all)", hex(&w.source.0[..n]), w.source.0.len(), hex(&want[..want.len().min(5)]), want.len()), input));
    }
    let hdr = if len < 255 { 3 } else { 5 };
    for chunks in [vec![], vec![1, 1, 1, 1, 1, 1, usize::MAX]] {
        let mut r = PacketTransport { source: Peer::preloaded(w.source.0.clone(), chunks.clone(), None) };
        match guard(|| block_on(r.read_packet::<RawFrame>())).map_err(|e| Violation::new("header", "C04 kind=reader-panic".to_string(), e, input.clone()))? {
            Ok(RawFrame(f)) if f == want && r.source.delivered() == want.len() => {}
            Ok(RawFrame(f)) => return Err(Violation::new("header", "C04 kind=reader-header".to_string(), format!("body length {len} (header {}): reader returned a frame of {} bytes and consumed {} of {}", hex(&want[..hdr]), f.len(), r.source.delivered(), want.len()), input)),
            Err(e) => return Err(Violation::new("header", "C04 kind=reader-header".to_string(), format!("body length {len} (header {}): reader failed: {e}", hex(&want[..hdr])), input)),
        }
    }
    Ok(())
}

/// libFuzzer input -> stream case (chunk schedule, end-of-stream position, packets).
pub fn case_from_fuzz(data: &[u8]) -> Option<StreamCase> {
    if data.len() < 4 {
        return None;
    }
    let nchunks = (data[0] % 5) as usize;
    let eof_sel = data[1];
    let mut pos = 2;
    let mut chunks = vec![];
    for _ in 0..nchunks {
        if pos >= data.len() {
            break;
        }
        chunks.push(1 + (data[pos] % 17) as usize);
        pos += 1;
    }
    let mut packets = vec![];
    while pos + 3 <= data.len() && packets.len() < 5 {
        let (c, i, sel) = (data[pos], data[pos + 1], data[pos + 2]);
        pos += 3;
        let want = match sel % 8 {
            0 => 0usize,
            1 => 254,
            2 => 255,
            3 => 256,
            _ => (sel as usize) % 40,
        };
        let body: Vec<u8> = (0..want).map(|k| data.get(pos + k % 7).copied().unwrap_or(k as u8)).collect();
        pos += want.min(7);
        let mut p = vec![c, i];
        if want < 255 && sel % 16 != 15 {
            p.push(want as u8);
        } else {
            p.push(0xff);
            p.push((want & 0xff) as u8);
            p.push((want >> 8) as u8);
        }
        p.extend(body);
        packets.push(hex(&p));
    }
    if packets.is_empty() {
        return None;
    }
    let total: usize = packets.iter().map(|p| p.len() / 2).sum();
    let eof = if eof_sel % 3 == 0 { Some(eof_sel as usize * (total + 1) / 256) } else { None };
    Some(StreamCase { packets, chunks, eof, picky: false, interrupt_at: None })
}

/// The acknowledgement read inside `write_packet_with_ack` is a read like any other: it consumes precisely the packet the
/// terminal answered with (3- or 5-byte header + announced data block), whatever it carries, and leaves the next packet alone.
pub fn check_ack_stream(answer: &[u8], next: &[u8], chunks: &[usize]) -> CheckResult {
    let input = json!({"answer": hex(answer), "next": hex(next), "chunks": chunks});
    let mut data = answer.to_vec();
    data.extend_from_slice(next);
    let mut tr = PacketTransport { source: Peer::preloaded(data, chunks.to_vec(), None) };
    let cmd = Blob { data: "0102".into() };
    let res = guard(|| block_on(tr.write_packet_with_ack(&cmd)).map_err(|e| format!("{e:#}"))).map_err(|e| Violation::new("ack", "C04 kind=panic".to_string(), e, input.clone()))?;
    let positive = answer.len() >= 2 && answer[0] == 0x80 && answer[1] == 0x00;
    if positive != res.is_ok() {
        return Err(Violation::new("ack", "C04 kind=acknowledgement-misjudged".to_string(), format!("the terminal answered {}; write_packet_with_ack returned {:?}", clip(&hex(answer), 60), res), input));
    }
    let mut pos = 0usize;
    for ev in &tr.source.log {
        if let Ev::Read { asked, got } = ev {
            if pos + asked > answer.len() {
                return Err(Violation::new("ack", "C04 kind=read-ahead".to_string(), format!("while reading the {}-byte answer the reader asked for {asked} bytes at offset {pos}", answer.len()), input));
            }
            pos += got;
        }
    }
    if tr.source.delivered() != answer.len() {
        return Err(Violation::new("ack", "C04 kind=acknowledgement-not-consumed-precisely".to_string(), format!("the answer {} is {} bytes long; the acknowledgement read consumed {}", clip(&hex(answer), 40), answer.len(), tr.source.delivered()), input));
    }
    match guard(|| block_on(tr.read_packet::<RawFrame>())).map_err(|e| Violation::new("ack", "C04 kind=panic".to_string(), e, input.clone()))? {
        Ok(RawFrame(f)) if f == next => Ok(()),
        other => Err(Violation::new("ack", "C04 kind=wrong-frame".to_string(), format!("behind the answer comes {}; read_packet returned {:?}", clip(&hex(next), 60), other.map(|f| clip(&hex(&f.0), 60)).map_err(|e| e.to_string())), input)),
    }
}

pub fn replay(check: &str, i: &Value) -> Option<CheckResult> {
    Some(match check {
        "ack" => check_ack_stream(&unhex(i.get("answer")?.as_str()?), &unhex(i.get("next")?.as_str()?), &serde_json::from_value::<Vec<usize>>(i.get("chunks")?.clone()).ok()?),
        "stream" => check_stream(&serde_json::from_value(i.clone()).ok()?),
        "header" => check_header(i.get("body_len")?.as_u64()? as usize),
        _ => return None,
    })
}

fn partition_chunks(n: usize, mask: u32) -> Vec<usize> {
    // bit i set = cut after byte i
    let mut out = vec![];
    let mut run = 0;
    for i in 0..n {
        run += 1;
        if i + 1 == n || mask >> i & 1 == 1 {
            out.push(run);
            run = 0;
        }
    }
    out.push(usize::MAX);
    out
}

fn classify(c: &StreamCase, st: &mut Stats) -> bool {
    let packets: Vec<Vec<u8>> = c.packets.iter().map(|h| unhex(h)).collect();
    let ext = packets.iter().any(|p| p.len() >= 3 && p[2] == 0xff);
    // does a chunk boundary fall strictly inside a header?
    let mut bounds = vec![];
    let mut pos = 0usize;
    let total: usize = packets.iter().map(|p| p.len()).sum();
    if !c.chunks.is_empty() {
        let mut i = 0;
        while pos < total && i < 100_000 {
            pos = pos.saturating_add(c.chunks[i % c.chunks.len()].max(1));
            bounds.push(pos);
            i += 1;
        }
    }
    let mut split_hdr = false;
    let mut off = 0;
    for p in &packets {
        let h = if p.len() >= 3 && p[2] == 0xff { 5 } else { 3 };
        if bounds.iter().any(|b| *b > off && *b < off + h) {
            split_hdr = true;
        }
        off += p.len();
    }
    if ext {
        st.class("extended-length-packet");
    }
    if split_hdr {
        st.class("split-inside-header");
    }
    if c.eof.is_some() {
        st.class("stream-ends-early");
    }
    if packets.len() >= 2 {
        st.class("k>=2");
    }
    (packets.len() >= 2 && split_hdr) || ext
}

pub fn run(tier: Tier) -> i32 {
    let ctx = Ctx::new(P, "exploration", tier);
    let mut stats = Stats::new();
    stats.sample_cap = 8;
    crate::run_regressions(&ctx, &mut stats, replay);
    // 1. header agreement, every body length 0..=65535
    let s = ctx.shards("header", 64, |i, _seed, st| {
        let mut n = i as usize;
        let mut c = 0;
        while n <= 65535 {
            let r = check_header(n);
            if r.is_err() {
                ctx.record(r, st);
            }
            c += 1;
            n += 64;
        }
        st.enumerated(c, c);
        st.class_n("header-agreement", c);
    });
    stats.merge(s);
    stats.sample(|| json!({"check": "header", "body_len": 255, "expect": "0e 0b ff ff 00 + 255 bytes; reader (one chunk and byte-wise header) returns the same frame"}));

    // 2. all 2^(n-1) partitions of short concatenations, every end-of-stream position
    let short: Vec<Vec<Vec<u8>>> = vec![
        vec![vec![0x06, 0x0f, 0x00], vec![0x80, 0x00, 0x00], vec![0x04, 0xff, 0x02, 0x17, 0x00]],
        vec![vec![0x0e, 0x0b, 0xff, 0x01, 0x00, 0xaa], vec![0x06, 0x1e, 0x01, 0x6c]],
        vec![vec![0x04, 0x0f, 0x02, 0x27, 0x00], vec![0x06, 0xd1, 0x03, 0x00, b'h', b'i'], vec![0x80, 0x00, 0x00]],
        vec![vec![0x84, 0x9a, 0x00], vec![0x06, 0x0f, 0x05, 0x19, 0x10, 0x49, 0x09, 0x78]],
    ];
    let s = ctx.shards("partitions", short.len() as u64, |i, _seed, st| {
        let packets = &short[i as usize];
        let n: usize = packets.iter().map(|p| p.len()).sum();
        let hexes: Vec<String> = packets.iter().map(|p| hex(p)).collect();
        let masks: u32 = 1 << (n - 1);
        for mask in 0..masks {
            let eofs: Vec<Option<usize>> = if mask % 64 == 0 || tier == Tier::Thorough { std::iter::once(None).chain((0..=n).map(Some)).collect() } else { vec![None, Some((mask as usize * 7) % (n + 1))] };
            for eof in eofs {
                let c = StreamCase { packets: hexes.clone(), chunks: partition_chunks(n, mask), eof, picky: mask % 3 == 1, interrupt_at: if mask % 5 == 2 { Some(mask as usize % n) } else { None } };
                let nt = classify(&c, st);
                st.case(nt, fnv(&serde_json::to_vec(&c).unwrap()));
                st.class("exhaustive-partition");
                if mask == 0b1010101 && eof.is_none() {
                    st.sample(|| serde_json::to_value(&c).unwrap());
                }
                ctx.record(check_stream(&c), st);
            }
        }
    });
    stats.merge(s);

    // 3. random sequences
    let t = crate::table();
    let tys = types();
    let cmds: Vec<usize> = (0..tys.len()).filter(|i| t[tys[*i].name].ctrl.is_some()).collect();
    let mut pool: Vec<String> = vec![];
    for (k, ci) in cmds.iter().enumerate() {
        let name = tys[*ci].name;
        for v in ctx.sample_values(ctx.seed_for("pool", k as u64), 12, &strategy_for(&t, name, GenCfg { vec_max: 3, text_max: 120, blob_max: 300 })) {
            if is_canonical(&t, &t[name], &v) {
                pool.push(hex(&encode(&t, &t[name], &v).unwrap()));
            }
        }
    }
    // the acknowledgement read of write_packet_with_ack: answers with data blocks of every length around the switch to the
    // extended form, in canonical and non-canonical headers, positive and negative, x what follows x chunk schedules
    {
        let mut st = Stats::new();
        let mut answers: Vec<Vec<u8>> = vec![vec![0x84, 0x9a, 0x00], vec![0x84, 0x00, 0x02, 0x01, 0x02], vec![0x06, 0x0f, 0x00]];
        for n in [0usize, 1, 3, 253, 254, 255, 256, 257, 300, 1000, 65535] {
            answers.push(ref_frame(0x80, 0x00, &blob_body(n, n as u8)));
            if n < 255 {
                let b = blob_body(n, 7);
                let mut o = vec![0x80, 0x00, 0xff, n as u8, 0];
                o.extend(b);
                answers.push(o);
            }
        }
        let nexts: Vec<Vec<u8>> = vec![vec![0x06, 0x0f, 0x00], vec![0x04, 0xff, 0x02, 0x17, 0x00], ref_frame(0x06, 0xd1, &blob_body(300, 1))];
        for a in &answers {
            for nx in &nexts {
                for ch in [vec![], vec![1usize], vec![2, 3], vec![4, 1, 300]] {
                    st.case(a.len() > 3, fnv(&[a.as_slice(), nx.as_slice(), &[ch.len() as u8]].concat()));
                    st.class("acknowledgement-read");
                    ctx.record(check_ack_stream(a, nx, &ch), &mut st);
                }
            }
        }
        stats.merge(st);
    }
    // one packet with a body of 255 .. 65535 bytes, the stream ending at every offset of the header, of the first and of the
    // last 8 bytes of the body (and right behind it): an error inside, the packet at the end
    {
        let mut st = Stats::new();
        for n in [255usize, 256, 1023, 1024, 1025, 1500, 4095, 4096, 4097, 65535] {
            let p = ref_frame(BLOB_CTRL.0, BLOB_CTRL.1, &blob_body(n, n as u8));
            let total = p.len();
            let cuts: Vec<usize> = (0..=13).chain(total - 9..=total).collect();
            for eof in cuts {
                for chunks in [vec![], vec![7usize], vec![1000]] {
                    let c = StreamCase { packets: vec![hex(&p)], chunks, eof: Some(eof), picky: false, interrupt_at: None };
                    st.case(true, fnv(&[n as u8, (n >> 8) as u8, eof as u8, (eof >> 8) as u8, c.chunks.len() as u8]));
                    st.class("large-body:stream-ends-near-its-end");
                    ctx.record(check_stream(&c), &mut st);
                }
            }
        }
        stats.merge(st);
    }
    let nrand: u32 = tier.pick(20_000, 400_000);
    let big = tier.pick(2u32, 6);
    let s = ctx.shards("random", 16, |_i, seed, st| {
        let blob_len = prop_oneof![
            8 => proptest::sample::select(vec![0usize, 1, 2, 253, 254, 255, 256, 257, 300]),
            4 => 0usize..700,
            big => proptest::sample::select(vec![65534usize, 65535, 30000]),
        ];
        let packet = prop_oneof![
            3 => proptest::sample::select(pool.clone()),
            3 => (blob_len, any::<u8>()).prop_map(|(n, s)| hex(&ref_frame(BLOB_CTRL.0, BLOB_CTRL.1, &blob_body(n, s)))),
            1 => (0usize..200, any::<u8>(), any::<u8>(), any::<u8>()).prop_map(|(n, c, i, s)| { let b = blob_body(n, s); let mut o = vec![c, i, 0xff, n as u8, 0]; o.extend(b); hex(&o) }),
        ];
        let chunks = prop_oneof![
            2 => Just(vec![]),
            2 => Just(vec![1usize]),
            1 => Just(vec![2usize]),
            4 => proptest::collection::vec(1usize..9, 1..8),
            2 => proptest::collection::vec(prop_oneof![1usize..4, 100usize..5000], 1..6),
        ];
        let strat = (proptest::collection::vec(packet, 1..6), chunks, proptest::option::weighted(0.35, any::<u32>()), prop::bool::weighted(0.4)).prop_map(|(packets, chunks, eof, picky)| {
            let total: usize = packets.iter().map(|p| p.len() / 2).sum();
            let eof = eof.map(|e| (e as u64 * (total as u64 + 1) >> 32) as usize);
            // a fifth of the streams without an early end have one interrupted read somewhere
            let interrupt_at = if eof.is_none() && total > 0 && packets.len() % 5 == 1 { Some((total * 7 / 11 + chunks.len()) % total) } else { None };
            StreamCase { packets, chunks, eof, picky, interrupt_at }
        });
        ctx.proptest(seed, nrand / 16, &strat, st, |c, st| {
            let nt = classify(c, st);
            st.case(nt, fnv(&serde_json::to_vec(c).unwrap()));
            st.class("random-sequence");
            if c.interrupt_at.is_some() {
                st.class("one-read-interrupted");
            }
            if c.picky {
                st.class("read-with-a-rejecting-parser");
                if c.packets.iter().any(|p| p.len() > 520 && u8::from_str_radix(&p[2..4], 16).map(|i| i & 1 == 1).unwrap_or(false)) {
                    st.class("read-with-a-rejecting-parser:rejected-extended-length-packet");
                }
            }
            check_stream(c)
        });
    });
    stats.merge(s);
    if tier == Tier::Thorough {
        let seeds: Vec<Vec<u8>> = vec![vec![2, 0, 3, 5, 0x06, 0x0f, 1, 0x27, 0x80, 0x00, 0, 0x04, 0xff, 2, 0x17, 0x00], vec![0, 3, 0x0e, 0x0b, 2, 9, 9, 0x06, 0x1e, 5, 0x6c]];
        match fuzz_campaign("stream_frames", 1_000_000, 256, ctx.seed, &seeds) {
            Err(e) => stats.notes.push(format!("coverage-guided layer skipped (infrastructure): {e}")),
            Ok((crash, stat)) => {
                stats.class_n("libfuzzer-runs", 1_000_000);
                stats.evaluations += 1_000_000;
                stats.notes.push(format!("libFuzzer stream_frames: {stat}"));
                if let Some(input) = crash {
                    // re-check through the deterministic path before reporting
                    match case_from_fuzz(&input) {
                        Some(case) => {
                            let r = check_stream(&case);
                            if r.is_ok() {
                                stats.notes.push(format!("libFuzzer saved an input that does not reproduce deterministically: {}", clip(&hex(&input), 200)));
                            }
                            ctx.record(r, &mut stats);
                        }
                        None => stats.notes.push("libFuzzer saved an input that maps to no case".into()),
                    }
                }
            }
        }
    }
    stats.exhaustive_parts = vec!["writer/reader header agreement for every body length 0..=65535".into(), "all 2^(n-1) chunkings of 4 short packet concatenations (8..14 bytes)".into()];
    ctx.finish(
        stats,
        "the acknowledgement read of write_packet_with_ack (answers with data blocks of 0..65535 bytes, canonical and ff-form headers, negative answers: consumed precisely, the next packet intact); header sweep over all body lengths (writer output vs reference header; reader on one chunk and byte-wise header); all chunkings of short concatenations x end-of-stream positions; proptest sequences of 1..5 packets (reference-encoded canonical commands, blobs with body lengths around 0/254/255/65535, extended-form headers) x chunk schedules (all-at-once, 1-byte, random partitions; a Pending wake-up between chunks) x end-of-stream offsets x one read failing with ErrorKind::Interrupted (the reader may report it or carry on correctly, never return other bytes) x the parser handed to read_packet (one that returns the frame, or one that rejects every control field with an odd instruction byte the way the derived reply enums reject foreign ones). Oracle: frames returned = the packets in order (a rejected packet yields an error and is consumed like any other); after packet i the read cursor is exactly at its end and no read asked beyond it; a stream ending inside a packet or at a boundary yields an error. non-trivial = (>= 2 packets and a chunk boundary inside a header) or an extended-length packet; distinct by (packets, schedule, eof)",
        &["RawFrame (harness ZvtParser copying its input) makes read_packet return what the transport framed", "in-memory streams never produce short writes"],
        false,
    )
}
