//! C16 — every length-prefix style is an exact, shortest-form bijection on its range. Exhaustive.
use crate::engine::*;
use serde_json::{json, Value};
use zvt::length::{Adpu, Empty, Fixed, Length, Llv, Lllv, Tlv};
use zvt::ZVTError;

const P: &str = "C16";

/// Reference prefix (DESIGN.md 5.2), written independently of zvt_builder::length.
fn ref_prefix(style: &str, n: usize) -> Vec<u8> {
    match style {
        "tlv" => match n {
            0..=127 => vec![n as u8],
            128..=255 => vec![0x81, n as u8],
            _ => vec![0x82, (n >> 8) as u8, (n & 0xff) as u8],
        },
        "adpu" => {
            if n < 255 {
                vec![n as u8]
            } else {
                vec![0xff, (n & 0xff) as u8, (n >> 8) as u8]
            }
        }
        "llv" => vec![0xf0 | (n / 10) as u8, 0xf0 | (n % 10) as u8],
        "lllv" => vec![0xf0 | (n / 100) as u8, 0xf0 | (n / 10 % 10) as u8, 0xf0 | (n % 10) as u8],
        _ => unreachable!(),
    }
}
fn range(style: &str) -> usize {
    match style {
        "tlv" | "adpu" => 65535,
        "llv" => 99,
        "lllv" => 999,
        _ => unreachable!(),
    }
}
/// Reference reading of arbitrary bytes: Some(Ok((n, consumed))) / Some(Err) where the format defines the answer,
/// None where it is left open (unsupported BER forms, non-`F`/non-decimal LLVAR nibbles).
fn ref_read(style: &str, b: &[u8]) -> Option<Result<(usize, usize), ()>> {
    match style {
        "tlv" => match b.first() {
            None => Some(Err(())),
            Some(&d) if d < 0x80 => Some(Ok((d as usize, 1))),
            Some(0x81) => Some(if b.len() < 2 { Err(()) } else { Ok((b[1] as usize, 2)) }),
            Some(0x82) => Some(if b.len() < 3 { Err(()) } else { Ok((((b[1] as usize) << 8) | b[2] as usize, 3)) }),
            _ => None,
        },
        "adpu" => match b.first() {
            None => Some(Err(())),
            Some(0xff) => Some(if b.len() < 3 { Err(()) } else { Ok(((b[1] as usize) | ((b[2] as usize) << 8), 3)) }),
            Some(&d) => Some(Ok((d as usize, 1))),
        },
        "llv" | "lllv" => {
            let k = if style == "llv" { 2 } else { 3 };
            if b.len() < k {
                return Some(Err(()));
            }
            if b[..k].iter().all(|d| d >> 4 == 0xf && d & 0xf < 10) {
                Some(Ok((b[..k].iter().fold(0, |a, d| a * 10 + (d & 0xf) as usize), k)))
            } else {
                None
            }
        }
        _ => unreachable!(),
    }
}
fn ser(style: &str, n: usize) -> Vec<u8> {
    match style {
        "tlv" => Tlv::serialize(n),
        "adpu" => Adpu::serialize(n),
        "llv" => Llv::serialize(n),
        "lllv" => Lllv::serialize(n),
        _ => unreachable!(),
    }
}
fn de<'a>(style: &str, b: &'a [u8]) -> Result<(usize, &'a [u8]), ZVTError> {
    match style {
        "tlv" => Tlv::deserialize(b),
        "adpu" => Adpu::deserialize(b),
        "llv" => Llv::deserialize(b),
        "lllv" => Lllv::deserialize(b),
        _ => unreachable!(),
    }
}

/// length n of a style, with trailing data: serialize == reference prefix; deserialize(prefix ‖ d) == (n, d); proper prefixes are errors.
pub fn check_len(style: &str, n: usize, trailing: &[u8]) -> CheckResult {
    check_len_with(style, n, trailing, &|| json!({"style": style, "n": n, "trailing": hex(trailing)}))
}
/// pseudo-random filler bytes (deterministic in (seed, len)): a window of one fixed 192 KiB buffer
pub fn fill(seed: u64, len: usize) -> Vec<u8> {
    fill_ref(seed, len).to_vec()
}
fn fill_ref(seed: u64, len: usize) -> &'static [u8] {
    static BUF: std::sync::OnceLock<Vec<u8>> = std::sync::OnceLock::new();
    let b = BUF.get_or_init(|| (0..(192usize << 10)).map(|k| (splitmix(k as u64 / 8) >> (k % 8 * 8)) as u8).collect());
    let off = (seed % 8191) as usize;
    &b[off..off + len.min(b.len() - 8191)]
}
/// as check_len, with `len` filler bytes as trailing data (the replay file names seed and length instead of the bytes)
pub fn check_len_fill(style: &str, n: usize, seed: u64, len: usize) -> CheckResult {
    let trailing = fill_ref(seed, len);
    check_len_with(style, n, trailing, &|| json!({"style": style, "n": n, "fill_seed": seed, "fill_len": len}))
}
fn check_len_with(style: &str, n: usize, trailing: &[u8], input: &dyn Fn() -> Value) -> CheckResult {
    let want = ref_prefix(style, n);
    let got = guard(|| ser(style, n)).map_err(|p| Violation::new("len", format!("C16 style={style} op=serialize kind=panic"), format!("serialize({n}) panicked: {p}"), input()))?;
    if got != want {
        return Err(Violation::new("len", format!("C16 style={style} op=serialize kind=wrong-prefix"), format!("serialize({n}) = {} expected {}", hex(&got), hex(&want)), input()));
    }
    let mut buf = want.clone();
    buf.extend_from_slice(trailing);
    match guard(|| de(style, &buf).map(|(m, r)| (m, r.to_vec()))) {
        Err(p) => return Err(Violation::new("len", format!("C16 style={style} op=deserialize kind=panic"), format!("deserialize({}) panicked: {p}", clip(&hex(&buf), 160)), input())),
        Ok(Err(e)) => return Err(Violation::new("len", format!("C16 style={style} op=deserialize kind=rejects-valid"), format!("deserialize({}) = Err({e:?}), expected ({n}, {})", clip(&hex(&buf), 160), clip(&hex(trailing), 80)), input())),
        Ok(Ok((m, r))) => {
            if m != n || r != trailing {
                return Err(Violation::new("len", format!("C16 style={style} op=deserialize kind=wrong-result"), format!("deserialize({}) = ({m}, {}), expected ({n}, {})", clip(&hex(&buf), 160), clip(&hex(&r), 80), clip(&hex(trailing), 80)), input()));
            }
        }
    }
    for cut in 0..want.len() {
        match guard(|| de(style, &want[..cut]).map(|(m, r)| (m, r.len()))) {
            Err(p) => return Err(Violation::new("len", format!("C16 style={style} op=deserialize-truncated kind=panic"), format!("deserialize({}) (truncated prefix of length {n}) panicked: {p}", hex(&want[..cut])), input())),
            Ok(Ok((m, _))) => return Err(Violation::new("len", format!("C16 style={style} op=deserialize-truncated kind=accepts-truncated"), format!("deserialize({}) = Ok({m}), expected an error for a truncated prefix", hex(&want[..cut])), input())),
            Ok(Err(_)) => {}
        }
    }
    Ok(())
}

/// arbitrary short byte string through a parser
pub fn check_bytes(style: &str, b: &[u8]) -> CheckResult {
    let input = json!({"style": style, "bytes": hex(b)});
    let got = guard(|| de(style, b).map(|(m, r)| (m, r.len())))
        .map_err(|p| Violation::new("bytes", format!("C16 style={style} op=deserialize-arbitrary kind=panic"), format!("deserialize({}) panicked: {p}", hex(b)), input.clone()))?;
    // rest must be a suffix (we only have its length: check it against the reference consumption where defined)
    match (ref_read(style, b), got) {
        (Some(Ok((n, used))), Ok((m, rest))) => {
            if m != n || rest != b.len() - used {
                return Err(Violation::new("bytes", format!("C16 style={style} op=deserialize-arbitrary kind=wrong-result"), format!("deserialize({}) = ({m}, rest {rest}), reference ({n}, rest {})", hex(b), b.len() - used), input));
            }
        }
        (Some(Ok((n, _))), Err(e)) => return Err(Violation::new("bytes", format!("C16 style={style} op=deserialize-arbitrary kind=rejects-valid"), format!("deserialize({}) = Err({e:?}), reference {n}", hex(b)), input)),
        (Some(Err(())), Ok((m, _))) => return Err(Violation::new("bytes", format!("C16 style={style} op=deserialize-arbitrary kind=accepts-truncated"), format!("deserialize({}) = Ok({m}), reference: truncated", hex(b)), input)),
        (Some(Err(())), Err(_)) => {}
        (None, Ok((_, rest))) => {
            if rest > b.len() {
                return Err(Violation::new("bytes", format!("C16 style={style} op=deserialize-arbitrary kind=rest-not-suffix"), format!("deserialize({}) rest longer than input", hex(b)), input));
            }
        }
        (None, Err(_)) => {}
    }
    Ok(())
}

macro_rules! fixed_case {
    ($n:literal, $len:expr, $trailing:expr) => {{
        let len: usize = $len;
        let trailing: &[u8] = $trailing;
        let input = json!({"style": "fixed", "width": $n, "n": len, "trailing": hex(trailing)});
        let r: CheckResult = (|| {
            let pad = guard(|| Fixed::<$n>::serialize(len)).map_err(|p| Violation::new("fixed", format!("C16 style=fixed op=serialize kind=panic"), format!("Fixed<{}>::serialize({len}) panicked: {p}", $n), input.clone()))?;
            if pad != vec![0u8; $n - len] {
                return Err(Violation::new("fixed", "C16 style=fixed op=serialize kind=wrong-prefix".to_string(), format!("Fixed<{}>::serialize({len}) = {}, expected {} zero bytes (left padding)", $n, hex(&pad), $n - len), input.clone()));
            }
            let mut buf = pad.clone();
            buf.extend((0..len).map(|i| 0xa0u8 | (i as u8 & 0xf)));
            buf.extend_from_slice(trailing);
            match guard(|| Fixed::<$n>::deserialize(&buf).map(|(m, r)| (m, r.to_vec()))) {
                Err(p) => return Err(Violation::new("fixed", "C16 style=fixed op=deserialize kind=panic".to_string(), format!("Fixed<{}>::deserialize panicked: {p}", $n), input.clone())),
                Ok(Ok((m, r))) if m == $n && r == buf => {}
                Ok(other) => return Err(Violation::new("fixed", "C16 style=fixed op=deserialize kind=wrong-result".to_string(), format!("Fixed<{}>::deserialize({}) = {:?}, expected ({}, whole input)", $n, hex(&buf), other.map(|(m, r)| (m, hex(&r))), $n), input.clone())),
            }
            for cut in 0..$n {
                let short = vec![0u8; cut];
                match guard(|| Fixed::<$n>::deserialize(&short).map(|(m, _)| m)) {
                    Err(p) => return Err(Violation::new("fixed", "C16 style=fixed op=deserialize-truncated kind=panic".to_string(), format!("Fixed<{}>::deserialize of {cut} bytes panicked: {p}", $n), input.clone())),
                    Ok(Ok(m)) => return Err(Violation::new("fixed", "C16 style=fixed op=deserialize-truncated kind=accepts-truncated".to_string(), format!("Fixed<{}>::deserialize of {cut} bytes = Ok({m})", $n), input.clone())),
                    Ok(Err(_)) => {}
                }
            }
            Ok(())
        })();
        r
    }};
}

pub fn check_fixed(width: usize, len: usize, trailing: &[u8]) -> CheckResult {
    match width {
        1 => fixed_case!(1, len, trailing),
        2 => fixed_case!(2, len, trailing),
        3 => fixed_case!(3, len, trailing),
        4 => fixed_case!(4, len, trailing),
        5 => fixed_case!(5, len, trailing),
        6 => fixed_case!(6, len, trailing),
        7 => fixed_case!(7, len, trailing),
        8 => fixed_case!(8, len, trailing),
        9 => fixed_case!(9, len, trailing),
        10 => fixed_case!(10, len, trailing),
        11 => fixed_case!(11, len, trailing),
        12 => fixed_case!(12, len, trailing),
        13 => fixed_case!(13, len, trailing),
        14 => fixed_case!(14, len, trailing),
        15 => fixed_case!(15, len, trailing),
        16 => fixed_case!(16, len, trailing),
        17 => fixed_case!(17, len, trailing),
        18 => fixed_case!(18, len, trailing),
        19 => fixed_case!(19, len, trailing),
        20 => fixed_case!(20, len, trailing),
        24 => fixed_case!(24, len, trailing),
        31 => fixed_case!(31, len, trailing),
        32 => fixed_case!(32, len, trailing),
        33 => fixed_case!(33, len, trailing),
        34 => fixed_case!(34, len, trailing),
        40 => fixed_case!(40, len, trailing),
        48 => fixed_case!(48, len, trailing),
        63 => fixed_case!(63, len, trailing),
        64 => fixed_case!(64, len, trailing),
        65 => fixed_case!(65, len, trailing),
        100 => fixed_case!(100, len, trailing),
        127 => fixed_case!(127, len, trailing),
        128 => fixed_case!(128, len, trailing),
        129 => fixed_case!(129, len, trailing),
        255 => fixed_case!(255, len, trailing),
        256 => fixed_case!(256, len, trailing),
        257 => fixed_case!(257, len, trailing),
        1000 => fixed_case!(1000, len, trailing),
        _ => Ok(()),
    }
}

pub fn check_empty(data: &[u8], n: usize) -> CheckResult {
    let input = json!({"style": "empty", "data": hex(data), "n": n});
    let s = guard(|| Empty::serialize(n)).map_err(|p| Violation::new("empty", "C16 style=empty kind=panic".to_string(), p, input.clone()))?;
    if !s.is_empty() {
        return Err(Violation::new("empty", "C16 style=empty op=serialize kind=wrong-prefix".to_string(), format!("Empty::serialize({n}) = {}", hex(&s)), input));
    }
    match guard(|| Empty::deserialize(data).map(|(m, r)| (m, r.to_vec()))) {
        Ok(Ok((m, r))) if m == data.len() && r == data => Ok(()),
        other => Err(Violation::new("empty", "C16 style=empty op=deserialize kind=wrong-result".to_string(), format!("Empty::deserialize({}) = {:?}", hex(data), other.map(|x| x.map(|(m, r)| (m, hex(&r))))), input)),
    }
}

pub fn replay(check: &str, i: &Value) -> Option<CheckResult> {
    let style = i.get("style")?.as_str()?.to_string();
    Some(match check {
        "len" if i.get("fill_len").is_some() => check_len_fill(&style, i.get("n")?.as_u64()? as usize, i.get("fill_seed")?.as_u64()?, i.get("fill_len")?.as_u64()? as usize),
        "len" => check_len(&style, i.get("n")?.as_u64()? as usize, &unhex(i.get("trailing")?.as_str()?)),
        "bytes" => check_bytes(&style, &unhex(i.get("bytes")?.as_str()?)),
        "fixed" => check_fixed(i.get("width")?.as_u64()? as usize, i.get("n")?.as_u64()? as usize, &unhex(i.get("trailing")?.as_str()?)),
        "empty" => check_empty(&unhex(i.get("data")?.as_str()?), i.get("n")?.as_u64()? as usize),
        _ => return None,
    })
}

pub fn run(tier: Tier) -> i32 {
    let ctx = Ctx::new(P, "exploration", tier);
    let mut stats = Stats::new();
    crate::run_regressions(&ctx, &mut stats, replay);
    const STYLES: [&str; 4] = ["tlv", "adpu", "llv", "lllv"];
    // 1. every representable length of every style x trailing data
    let s1 = ctx.shards("lengths", 64, |i, seed, st| {
        for style in STYLES {
            let max = range(style);
            let mut n = i as usize;
            while n <= max {
                let r5: Vec<u8> = (0..5).map(|k| (splitmix(seed ^ (n as u64 * 8 + k)) & 0xff) as u8).collect();
                for trailing in [&[][..], &r5[..1], &r5[..]] {
                    let r = check_len(style, n, trailing);
                    st.case(n >= 1, fnv(format!("{style}/{n}/{}", trailing.len()).as_bytes()));
                    ctx.record(r, st);
                }
                if n == 127 || n == 128 || n == 254 || n == 255 || n == 256 {
                    st.class(&format!("{style}:switch-point"));
                    st.sample(|| json!({"style": style, "n": n, "prefix": hex(&ref_prefix(style, n))}));
                }
                n += 64;
            }
        }
    });
    stats.merge(s1);
    // 1b. the amount of data behind the prefix: every amount 0..=1100 and some large ones behind representative lengths,
    //     and for every length the complete object (exactly n bytes of data, nothing more)
    let s1b = ctx.shards("data-amounts", 64, |i, seed, st| {
        for style in STYLES {
            let max = range(style);
            for n in [0usize, 1, 2, 99, 100, 127, 128, 129, 254, 255, 256, 257, 510, 511, 512, 999, 1000, 65534, 65535] {
                if n > max {
                    continue;
                }
                let mut t = i as usize;
                while t <= 1100 {
                    let r = check_len_fill(style, n, seed ^ n as u64, t);
                    st.case(t >= 256, fnv(format!("{style}/{n}/amount{t}").as_bytes()));
                    st.class("data-amount:0..=1100");
                    ctx.record(r, st);
                    t += 64;
                }
                for t in [4095usize, 4096, 65535, 65536, 65537, 65791, 65792, 100_000] {
                    if (t + n) % 64 == i as usize {
                        let r = check_len_fill(style, n, seed ^ n as u64, t);
                        st.case(true, fnv(format!("{style}/{n}/amount{t}").as_bytes()));
                        st.class("data-amount:large");
                        ctx.record(r, st);
                    }
                }
            }
            let mut n = i as usize;
            while n <= max {
                if n > 5 {
                    let r = check_len_fill(style, n, seed, n);
                    st.case(true, fnv(format!("{style}/{n}/complete").as_bytes()));
                    st.class("data-amount:complete-object");
                    ctx.record(r, st);
                }
                // constant data behind the prefix (a parser that looks past the prefix sees ff ff ff, 81 81 .., 82 82 .. there)
                if max > 999 || n % 7 == 0 {
                    for pat in [0xffu8, 0x00, 0x7f, 0x80, 0x81, 0x82, 0x1f, 0xf0] {
                        let data = [pat; 6];
                        for k in [3usize, 4, 6] {
                            let r = check_len(style, n, &data[..k]);
                            st.case(true, fnv(format!("{style}/{n}/const{pat}/{k}").as_bytes()));
                            st.class("data-content:constant-bytes-behind-the-prefix");
                            ctx.record(r, st);
                        }
                    }
                }
                // amounts derived from the length itself (its bytes swapped, halves, neighbours, complements): a parser
                // must not let the amount of data behind the prefix decide how the prefix is read
                if max > 999 {
                    let sw = ((n & 0xff) << 8) | (n >> 8);
                    for a in [sw, sw + 1, sw.saturating_sub(1), n >> 8, n & 0xff, n / 2, n.saturating_sub(1), n + 1, 65535 - n, n ^ 0xff, (n + 256) & 0xffff] {
                        if a == n || a <= 5 {
                            continue;
                        }
                        let r = check_len_fill(style, n, seed ^ a as u64, a);
                        st.case(true, fnv(format!("{style}/{n}/derived{a}").as_bytes()));
                        st.class("data-amount:derived-from-the-length");
                        ctx.record(r, st);
                    }
                }
                n += 64;
            }
        }
    });
    stats.merge(s1b);
    // 2. Fixed<N>, N = 1..=17, every payload length 0..=N; Empty
    for w in 1..=17usize {
        for len in 0..=w {
            for trailing in [&[][..], &[0x7f][..], &[1, 2, 3, 4, 5][..]] {
                let r = check_fixed(w, len, trailing);
                stats.case(true, fnv(format!("fixed/{w}/{len}/{}", trailing.len()).as_bytes()));
                stats.class("fixed");
                ctx.record(r, &mut stats);
            }
        }
    }
    // wider fields than any shipped packet uses (the style is generic in its width)
    for w in [18usize, 19, 20, 24, 31, 32, 33, 34, 40, 48, 63, 64, 65, 100, 127, 128, 129, 255, 256, 257, 1000] {
        for len in 0..=w {
            let r = check_fixed(w, len, if len % 2 == 0 { &[] } else { &[0x7f, 0x00] });
            stats.case(true, fnv(format!("fixed/{w}/{len}").as_bytes()));
            stats.class("fixed:wide");
            ctx.record(r, &mut stats);
        }
    }
    for n in [0usize, 1, 5, 300] {
        let data: Vec<u8> = (0..n).map(|i| i as u8).collect();
        let r = check_empty(&data, n);
        stats.case(n > 0, fnv(format!("empty/{n}").as_bytes()));
        ctx.record(r, &mut stats);
    }
    stats.sample(|| json!({"style": "fixed", "width": 6, "n": 2, "expect": "4 zero bytes of left padding; deserialize returns (6, whole input)"}));
    // 3. every byte string of length 1..=3 (and the empty string) through each parser
    let s3 = ctx.shards("prefix-strings", 256, |i, _seed, st| {
        let b0 = i as u8;
        for style in STYLES {
            if i == 0 {
                let r = check_bytes(style, &[]);
                st.case(false, 0);
                ctx.record(r, st);
            }
            let r = check_bytes(style, &[b0]);
            st.case(true, fnv(&[style.len() as u8, style.as_bytes()[0], b0]));
            ctx.record(r, st);
            let mut nt = 0u64;
            for b1 in 0..=255u8 {
                let r = check_bytes(style, &[b0, b1]);
                ctx.record(r, st);
                for b2 in 0..=255u8 {
                    let r = check_bytes(style, &[b0, b1, b2]);
                    if r.is_err() {
                        ctx.record(r, st);
                    }
                }
                nt += 257;
            }
            // multi-byte prefix forms (also the non-shortest spellings a parser accepts: 82 00 05, 81 05, ff 05 00) followed by
            // data: the length is what the prefix says, whatever stands behind it
            if matches!(b0, 0x81 | 0x82 | 0xff | 0xf0..=0xf9 | 0x7f | 0x80 | 0x00) {
                for b1 in 0..=255u8 {
                    for b2 in 0..=255u8 {
                        for data in [&[0xaau8][..], &[0xaa, 0xbb, 0xcc, 0xdd], &[0x00, 0x00, 0x01], &[0xff, 0xff, 0xff, 0xff, 0xff]] {
                            let mut s = vec![b0, b1, b2];
                            s.extend_from_slice(data);
                            let r = check_bytes(style, &s);
                            if r.is_err() {
                                ctx.record(r, st);
                            }
                        }
                    }
                }
                st.enumerated(65536 * 4, 65536 * 4);
                st.class_n(&format!("{style}:every-3-byte-prefix-string-followed-by-data"), 65536 * 4);
            }
            // all 65 792 strings with this first byte are distinct by construction; count them without hashing each
            st.enumerated(nt, nt);
            st.class_n(&format!("{style}:arbitrary-prefix-strings"), nt + 1);
        }
        if i == 0x82 {
            st.sample(|| json!({"style": "tlv", "bytes": "82", "expect": "error (truncated 3-byte BER length), no panic"}));
            st.sample(|| json!({"style": "adpu", "bytes": "ff0100", "expect": "(1, rest empty)"}));
        }
    });
    stats.merge(s3);
    stats.exhaustive_parts = vec![
        "every length 0..=65535 of Tlv and Adpu, 0..=99 of Llv, 0..=999 of Lllv, each with trailing data of 0, 1 and 5 bytes and as a complete object (exactly n bytes)".into(),
        "19 representative lengths per style x every amount of trailing data 0..=1100 and 4095, 4096, 65535..65537, 65791, 65792, 100000".into(),
        "Fixed<N> for N=1..=17 x every payload length 0..=N x 3 trailers; N in {18..20, 24, 31..34, 40, 48, 63..65, 100, 127..129, 255..257, 1000} x every payload length".into(),
        "every byte string of length 0..=3 through Tlv, Adpu, Llv, Lllv parsers".into(),
    ];
    ctx.finish(
        stats,
        "enumeration: every representable length of each style x trailing data {none, 1 byte, 5 pseudo-random bytes, exactly n bytes}; 19 representative lengths per style x every amount of data 0..=1100 behind the prefix plus 4095 / 4096 / 65535..65537 / 65791 / 65792 / 100000; every length x 8 constant byte values (ff, 00, 7f, 80, 81, 82, 1f, f0) as 3 / 4 / 6 bytes of data; every Tlv / Adpu length x 11 amounts derived from the length (bytes swapped +-1, high byte, low byte, half, n-1, n+1, 65535-n, n^ff, n+256); every byte string of length <= 3 through each parser, those beginning with a multi-byte marker (81, 82, ff, f0..f9) also followed by four data patterns (non-shortest spellings such as 82 00 05 included). non-trivial = length >= 1 / non-empty string; distinct by (style, length, trailing) resp. (style, bytes)",
        &["Reference prefix functions (this file) transcribe ZVT/BER length rules; lengths above a style's range are outside the property and not generated", "LLVAR strings with non-F high or non-decimal low nibbles and BER first bytes 0x80/0x83.. are only required not to panic"],
        true,
    )
}
