//! C17 — scalar, text and tag encodings round-trip over their whole domain.
use crate::engine::*;
use crate::refc::{bcd_digits, cp437_char, tag_bytes};
use proptest::prelude::*;
use serde_json::{json, Value};
use zvt::encoding::{Bcd, BigEndian, Default as Le, Encoding, Hex};
use zvt::{Tag, ZvtSerializerImpl};

const P: &str = "C17";

fn viol(check: &str, sig: String, detail: String, input: &Value) -> Violation {
    Violation::new(check, sig, detail, input.clone())
}

macro_rules! int_case {
    ($ty:ty, $tyname:expr, $enc:ty, $encname:expr, $x:expr, $trailing:expr, $refbytes:expr, $input:expr) => {{
        let x: $ty = $x as $ty;
        let input: &Value = $input;
        let want: Vec<u8> = $refbytes;
        let got = guard(|| <$enc as Encoding<$ty>>::encode(&x)).map_err(|p| viol("int", format!("C17 enc={} ty={} op=encode kind=panic", $encname, $tyname), p, input))?;
        if got != want {
            return Err(viol("int", format!("C17 enc={} ty={} op=encode kind=wrong-bytes", $encname, $tyname), format!("encode({x}) = {} expected {}", hex(&got), hex(&want)), input));
        }
        let mut buf = want.clone();
        buf.extend_from_slice($trailing);
        match guard(|| <$enc as Encoding<$ty>>::decode(&buf).map(|(v, r)| (v, r.to_vec()))) {
            Err(p) => return Err(viol("int", format!("C17 enc={} ty={} op=decode kind=panic", $encname, $tyname), p, input)),
            Ok(Ok((v, r))) if v == x && r == $trailing => {}
            Ok(other) => return Err(viol("int", format!("C17 enc={} ty={} op=decode kind=wrong-result", $encname, $tyname), format!("decode({}) = {:?} expected ({x}, {})", hex(&buf), other.map(|(v, r)| (v, hex(&r))), hex($trailing)), input)),
        }
        // truncated input is an error
        if !want.is_empty() {
            match guard(|| <$enc as Encoding<$ty>>::decode(&want[..want.len() - 1]).map(|(v, _)| v)) {
                Err(p) => return Err(viol("int", format!("C17 enc={} ty={} op=decode-truncated kind=panic", $encname, $tyname), p, input)),
                Ok(Ok(v)) => return Err(viol("int", format!("C17 enc={} ty={} op=decode-truncated kind=accepts-truncated", $encname, $tyname), format!("decode of {} bytes = Ok({v})", want.len() - 1), input)),
                Ok(Err(_)) => {}
            }
        }
        Ok(())
    }};
}

fn width(ty: &str) -> usize {
    match ty {
        "u8" => 1,
        "u16" => 2,
        "u32" => 4,
        _ => 8,
    }
}
fn tymax(ty: &str) -> u64 {
    match ty {
        "u8" => u8::MAX as u64,
        "u16" => u16::MAX as u64,
        "u32" => u32::MAX as u64,
        _ => u64::MAX,
    }
}

/// fixed-width integer round trip (enc = "le" | "be")
pub fn check_int(enc: &str, ty: &str, x: u64, trailing: &[u8]) -> CheckResult {
    let input = json!({"enc": enc, "ty": ty, "x": x.to_string(), "trailing": hex(trailing)});
    let w = width(ty);
    let refbytes: Vec<u8> = if enc == "le" { x.to_le_bytes()[..w].to_vec() } else { x.to_be_bytes()[8 - w..].to_vec() };
    match (enc, ty) {
        ("le", "u8") => int_case!(u8, ty, Le, enc, x, trailing, refbytes, &input),
        ("le", "u16") => int_case!(u16, ty, Le, enc, x, trailing, refbytes, &input),
        ("le", "u32") => int_case!(u32, ty, Le, enc, x, trailing, refbytes, &input),
        ("le", "u64") => int_case!(u64, ty, Le, enc, x, trailing, refbytes, &input),
        ("le", "usize") => int_case!(usize, ty, Le, enc, x, trailing, refbytes, &input),
        ("be", "u8") => int_case!(u8, ty, BigEndian, enc, x, trailing, refbytes, &input),
        ("be", "u16") => int_case!(u16, ty, BigEndian, enc, x, trailing, refbytes, &input),
        ("be", "u32") => int_case!(u32, ty, BigEndian, enc, x, trailing, refbytes, &input),
        ("be", "u64") => int_case!(u64, ty, BigEndian, enc, x, trailing, refbytes, &input),
        ("be", "usize") => int_case!(usize, ty, BigEndian, enc, x, trailing, refbytes, &input),
        _ => Ok(()),
    }
}

macro_rules! bcd_value_case {
    ($ty:ty, $tyname:expr, $x:expr, $input:expr) => {{
        let x: $ty = $x as $ty;
        let input: &Value = $input;
        let want = bcd_digits(x as u64);
        let got = guard(|| <Bcd as Encoding<$ty>>::encode(&x)).map_err(|p| viol("bcd", format!("C17 enc=bcd ty={} op=encode kind=panic", $tyname), p, input))?;
        if got != want {
            return Err(viol("bcd", format!("C17 enc=bcd ty={} op=encode kind=wrong-bytes", $tyname), format!("encode({x}) = {} expected {} (shortest even digit string, msd first)", hex(&got), hex(&want)), input));
        }
        match guard(|| <Bcd as Encoding<$ty>>::decode(&want).map(|(v, r)| (v, r.len()))) {
            Err(p) => Err(viol("bcd", format!("C17 enc=bcd ty={} op=decode kind=panic", $tyname), format!("decode({}) panicked: {p}", hex(&want)), input)),
            Ok(Ok((v, 0))) if v == x => Ok(()),
            Ok(other) => Err(viol("bcd", format!("C17 enc=bcd ty={} op=decode kind=wrong-result", $tyname), format!("decode({}) = {:?} expected ({x}, nothing left)", hex(&want), other), input)),
        }
    }};
}
pub fn check_bcd_value(ty: &str, x: u64) -> CheckResult {
    let input = json!({"ty": ty, "x": x.to_string()});
    match ty {
        "u8" => bcd_value_case!(u8, ty, x, &input),
        "u16" => bcd_value_case!(u16, ty, x, &input),
        "u32" => bcd_value_case!(u32, ty, x, &input),
        "u64" => bcd_value_case!(u64, ty, x, &input),
        _ => bcd_value_case!(usize, "usize", x, &input),
    }
}

/// Exact value of a BCD byte string, or None when it is not a strict string
/// (digits 0-9 in every nibble; `F` allowed only in the low nibble of the last byte).
fn strict_bcd_value(b: &[u8]) -> Option<u128> {
    let mut v: u128 = 0;
    for (i, d) in b.iter().enumerate() {
        let (h, l) = (d >> 4, d & 0xf);
        if h > 9 {
            return None;
        }
        if l == 0xf {
            if i + 1 != b.len() {
                return None;
            }
            v = v.checked_mul(10)?.checked_add(h as u128)?;
        } else if l > 9 {
            return None;
        } else {
            v = v.checked_mul(100)?.checked_add((h * 10 + l) as u128)?;
        }
    }
    Some(v)
}
macro_rules! bcd_digits_case {
    ($ty:ty, $tyname:expr, $b:expr, $input:expr) => {{
        let b: &[u8] = $b;
        let input: &Value = $input;
        let got = guard(|| <Bcd as Encoding<$ty>>::decode(b).map(|(v, r)| (v as u128, r.len())))
            .map_err(|p| viol("bcd_digits", format!("C17 enc=bcd ty={} op=decode-digits kind=panic", $tyname), format!("decode({}) panicked: {p}", hex(b)), input))?;
        if let Some(exact) = strict_bcd_value(b) {
            let fits = exact <= <$ty>::MAX as u128;
            match got {
                Ok((v, 0)) if fits && v == exact => Ok(()),
                Err(_) if !fits => Ok(()),
                Ok((v, _)) if !fits => Err(viol("bcd_digits", format!("C17 enc=bcd ty={} op=decode-digits kind=wrapped-value", $tyname), format!("decode({}) = Ok({v}); the digits denote {exact}, which does not fit {}: expected an error", hex(b), $tyname), input)),
                other => Err(viol("bcd_digits", format!("C17 enc=bcd ty={} op=decode-digits kind=wrong-result", $tyname), format!("decode({}) = {:?}; expected ({exact}, nothing left)", hex(b), other), input)),
            }
        } else {
            Ok(())
        }
    }};
}
pub fn check_bcd_digits(ty: &str, b: &[u8]) -> CheckResult {
    let input = json!({"ty": ty, "bytes": hex(b)});
    match ty {
        "u8" => bcd_digits_case!(u8, ty, b, &input),
        "u16" => bcd_digits_case!(u16, ty, b, &input),
        "u32" => bcd_digits_case!(u32, ty, b, &input),
        "u64" => bcd_digits_case!(u64, ty, b, &input),
        _ => bcd_digits_case!(usize, "usize", b, &input),
    }
}

fn representable(n: u16) -> bool {
    let hi = n >> 8;
    hi == 0x1f || hi == 0xff || (hi == 0 && n != 0x1f && n != 0xff)
}
pub fn check_tag(n: u16, trailing: &[u8]) -> CheckResult {
    let input = json!({"tag": n, "trailing": hex(trailing)});
    // BigEndian tags: always two bytes
    let got = guard(|| <BigEndian as Encoding<Tag>>::encode(&Tag(n))).map_err(|p| viol("tag", "C17 enc=be ty=tag op=encode kind=panic".into(), p, &input))?;
    if got != n.to_be_bytes() {
        return Err(viol("tag", "C17 enc=be ty=tag op=encode kind=wrong-bytes".into(), format!("encode(Tag({n:#x})) = {}", hex(&got)), &input));
    }
    let mut buf = got.clone();
    buf.extend_from_slice(trailing);
    match guard(|| <BigEndian as Encoding<Tag>>::decode(&buf).map(|(t, r)| (t.0, r.to_vec()))) {
        Ok(Ok((t, r))) if t == n && r == trailing => {}
        other => return Err(viol("tag", "C17 enc=be ty=tag op=decode kind=wrong-result".into(), format!("decode({}) = {:?}", hex(&buf), other.map(|x| x.map(|(t, r)| (t, hex(&r))))), &input)),
    }
    // Default tags
    let enc = guard(|| <Le as Encoding<Tag>>::encode(&Tag(n)));
    if representable(n) {
        let want = tag_bytes(n);
        let got = enc.map_err(|p| viol("tag", "C17 enc=default ty=tag op=encode kind=panic".into(), p, &input))?;
        if got != want {
            return Err(viol("tag", "C17 enc=default ty=tag op=encode kind=wrong-bytes".into(), format!("encode(Tag({n:#x})) = {} expected {}", hex(&got), hex(&want)), &input));
        }
        let mut buf = want.clone();
        buf.extend_from_slice(trailing);
        match guard(|| <Le as Encoding<Tag>>::decode(&buf).map(|(t, r)| (t.0, r.to_vec()))) {
            Ok(Ok((t, r))) if t == n && r == trailing => {}
            other => return Err(viol("tag", "C17 enc=default ty=tag op=decode kind=wrong-result".into(), format!("decode({}) = {:?} expected ({n:#x}, {})", hex(&buf), other.map(|x| x.map(|(t, r)| (t, hex(&r)))), hex(trailing)), &input)),
        }
        // a two-byte tag cut after its first byte is an error
        if want.len() == 2 {
            match guard(|| <Le as Encoding<Tag>>::decode(&want[..1]).map(|(t, _)| t.0)) {
                Ok(Err(_)) => {}
                other => return Err(viol("tag", "C17 enc=default ty=tag op=decode-truncated kind=accepts-truncated".into(), format!("decode({}) = {:?}", hex(&want[..1]), other), &input)),
            }
        }
    } else if let Err(p) = enc {
        return Err(viol("tag", "C17 enc=default ty=tag op=encode-unrepresentable kind=panic".into(), p, &input));
    }
    Ok(())
}

pub fn check_hex(b: &[u8]) -> CheckResult {
    let input = json!({"bytes": hex(b)});
    let s = hex(b);
    let got = guard(|| <Hex as Encoding<String>>::encode(&s)).map_err(|p| viol("hex", "C17 enc=hex op=encode kind=panic".into(), p, &input))?;
    if got != b {
        return Err(viol("hex", "C17 enc=hex op=encode kind=wrong-bytes".into(), format!("encode({s:?}) = {}", hex(&got)), &input));
    }
    match guard(|| <Hex as Encoding<String>>::decode(b).map(|(v, r)| (v, r.len()))) {
        Ok(Ok((v, 0))) if v == s => Ok(()),
        other => Err(viol("hex", "C17 enc=hex op=decode kind=wrong-result".into(), format!("decode({}) = {:?}", s, other), &input)),
    }
}

/// CP437 text; `b` must not end in NUL.
pub fn check_cp437(b: &[u8]) -> CheckResult {
    let input = json!({"bytes": hex(b)});
    let s: String = b.iter().map(|x| cp437_char(*x)).collect();
    let got = guard(|| <Le as Encoding<String>>::encode(&s)).map_err(|p| viol("cp437", "C17 enc=cp437 op=encode kind=panic".into(), format!("encode({s:?}) panicked: {p}"), &input))?;
    if got != b {
        return Err(viol("cp437", "C17 enc=cp437 op=encode kind=wrong-bytes".into(), format!("encode({s:?}) = {} expected {}", hex(&got), hex(b)), &input));
    }
    match guard(|| <Le as Encoding<String>>::decode(b).map(|(v, r)| (v, r.len()))) {
        Ok(Ok((v, 0))) if v == s => {}
        other => return Err(viol("cp437", "C17 enc=cp437 op=decode kind=wrong-result".into(), format!("decode({}) = {:?} expected {s:?}", hex(b), other), &input)),
    }
    Ok(())
}

pub fn check_receipt(x: u64) -> CheckResult {
    use zvt::length::Fixed;
    use zvt::packets::PartialReversalReceiptNo as R;
    let input = json!({"receipt": x});
    let want: Vec<u8> = if x == 0xffff { vec![0xff, 0xff] } else { vec![((x / 1000 % 10) << 4 | (x / 100 % 10)) as u8, ((x / 10 % 10) << 4 | (x % 10)) as u8] };
    let v = x as usize;
    let got = guard(|| <usize as ZvtSerializerImpl<Fixed<2>, R>>::serialize_tagged(&v, None)).map_err(|p| viol("receipt", "C17 enc=receiptno op=encode kind=panic".into(), p, &input))?;
    if got != want {
        return Err(viol("receipt", "C17 enc=receiptno op=encode kind=wrong-bytes".into(), format!("encode({x}) = {} expected {}", hex(&got), hex(&want)), &input));
    }
    match guard(|| <usize as ZvtSerializerImpl<Fixed<2>, R>>::deserialize_tagged(&want, None).map(|(v, r)| (v, r.len()))) {
        Ok(Ok((v, 0))) if v as u64 == x => Ok(()),
        other => Err(viol("receipt", "C17 enc=receiptno op=decode kind=wrong-result".into(), format!("decode({}) = {:?} expected {x}", hex(&want), other), &input)),
    }
}

pub fn replay(check: &str, i: &Value) -> Option<CheckResult> {
    let s = |k: &str| i.get(k).and_then(|v| v.as_str()).map(|s| s.to_string());
    Some(match check {
        "int" => check_int(&s("enc")?, &s("ty")?, s("x")?.parse().ok()?, &unhex(&s("trailing")?)),
        "bcd" => check_bcd_value(&s("ty")?, s("x")?.parse().ok()?),
        "bcd_digits" => check_bcd_digits(&s("ty")?, &unhex(&s("bytes")?)),
        "tag" => check_tag(i.get("tag")?.as_u64()? as u16, &unhex(&s("trailing")?)),
        "hex" => check_hex(&unhex(&s("bytes")?)),
        "cp437" => check_cp437(&unhex(&s("bytes")?)),
        "receipt" => check_receipt(i.get("receipt")?.as_u64()?),
        _ => return None,
    })
}

const TYS: [&str; 5] = ["u8", "u16", "u32", "u64", "usize"];

fn boundaries(max: u64) -> Vec<u64> {
    let mut v = vec![0, 1, max, max - 1];
    for k in 0..20u32 {
        let p = 10u128.pow(k);
        for c in [p - 1, p, p + 1] {
            if c <= max as u128 {
                v.push(c as u64);
            }
        }
    }
    for k in 0..64u32 {
        let p = 1u128 << k;
        for c in [p - 1, p, p + 1] {
            if c <= max as u128 {
                v.push(c as u64);
            }
        }
    }
    v.sort();
    v.dedup();
    v
}

pub fn run(tier: Tier) -> i32 {
    let ctx = Ctx::new(P, "exploration", tier);
    let mut stats = Stats::new();
    crate::run_regressions(&ctx, &mut stats, replay);
    let nrand: u32 = tier.pick(60_000, 600_000);

    // 1. integers: u8/u16 exhaustive, wider at boundaries + random
    let s = ctx.shards("int", 16, |i, seed, st| {
        for enc in ["le", "be"] {
            for ty in TYS {
                let max = tymax(ty);
                if max <= 0xffff {
                    let mut x = i;
                    while x <= max {
                        let r = check_int(enc, ty, x, if x % 3 == 0 { &[] } else { &[0xab, 0xcd] });
                        ctx.record(r, st);
                        let r = check_bcd_value(ty, x);
                        ctx.record(r, st);
                        x += 16;
                    }
                    let n = (max + 1 + 15 - i) / 16;
                    st.enumerated(2 * n, 2 * n);
                    st.class_n(&format!("{ty}:exhaustive"), 2 * n);
                } else {
                    if i == 0 {
                        for x in boundaries(max) {
                            let r = check_int(enc, ty, x, &[0x11]);
                            st.case(x >= 10, fnv(format!("{enc}/{ty}/{x}").as_bytes()));
                            ctx.record(r, st);
                            let r = check_bcd_value(ty, x);
                            st.case(x >= 10, fnv(format!("bcd/{ty}/{x}").as_bytes()));
                            st.class(&format!("{ty}:boundary"));
                            ctx.record(r, st);
                        }
                    }
                    let strat = (crate::gen::int_strategy(max), proptest::collection::vec(any::<u8>(), 0..4));
                    ctx.proptest(seed ^ fnv_str(enc) ^ fnv_str(ty), nrand / 16, &strat, st, |(x, tr), st| {
                        st.case(*x >= 10, fnv(format!("{enc}/{ty}/{x}").as_bytes()));
                        st.class(&format!("{ty}:random"));
                        check_int(enc, ty, *x, tr)?;
                        check_bcd_value(ty, *x)
                    });
                }
            }
        }
    });
    stats.merge(s);
    stats.sample(|| json!({"check": "int", "enc": "le", "ty": "u32", "x": 1234, "bytes": "d2040000"}));
    stats.sample(|| json!({"check": "bcd", "ty": "u64", "x": "18446744073709551615", "bytes": hex(&bcd_digits(u64::MAX))}));

    // 2. BCD digit strings of every length 0..=11 bytes
    let s = ctx.shards("bcd-digits", 16, |i, seed, st| {
        // all-nines / boundary strings, every length, with and without F filler
        if i == 0 {
            for len in 0..=24usize {
                for fill in [0x99u8, 0x00, 0x12, 0x25] {
                    for last_f in [false, true] {
                        let mut b = vec![fill; len];
                        if last_f {
                            if let Some(l) = b.last_mut() {
                                *l |= 0x0f;
                            } else {
                                continue;
                            }
                        }
                        for ty in TYS {
                            let r = check_bcd_digits(ty, &b);
                            st.case(len > 0, fnv(format!("d/{ty}/{}", hex(&b)).as_bytes()));
                            st.class("bcd-digits:boundary");
                            ctx.record(r, st);
                        }
                    }
                }
            }
            // strings whose leading digits sit right at the overflow limit of the type (MAX/100, MAX/10 and neighbours),
            // followed by every possible last byte (decimal, F-padded and non-decimal nibbles alike)
            for ty in TYS {
                let max = tymax(ty);
                for (div, _pad) in [(100u64, false), (10, true)] {
                    for d in [-2i64, -1, 0, 1] {
                        let base = (max / div) as i128 + d as i128;
                        if base < 0 {
                            continue;
                        }
                        let prefix = bcd_digits(base as u64);
                        for lead in [false, true] {
                            for last in 0..=255u8 {
                                let mut b = if lead { vec![0u8] } else { vec![] };
                                b.extend(&prefix);
                                b.push(last);
                                let r = check_bcd_digits(ty, &b);
                                if r.is_err() {
                                    ctx.record(r, st);
                                }
                            }
                        }
                    }
                }
            }
            st.enumerated(5 * 2 * 4 * 2 * 256, 5 * 2 * 4 * 2 * 256);
            st.class_n("bcd-digits:near-limit-prefix-x-every-last-byte", 5 * 2 * 4 * 2 * 256);
            // the same around every accumulator width an implementation might use (2^8 .. 2^128), for every target type:
            // leading digits at 2^w / 100 and 2^w / 10 (and neighbours), then every possible last byte
            let digits128 = |mut v: u128| -> Vec<u8> {
                let mut d = vec![];
                while v > 0 {
                    d.push((v % 10) as u8);
                    v /= 10;
                }
                if d.len() % 2 == 1 {
                    d.push(0);
                }
                d.reverse();
                d.chunks(2).map(|c| c[0] << 4 | c[1]).collect()
            };
            let mut nw = 0u64;
            for ty in TYS {
                for w in [8u32, 16, 32, 64, 128] {
                    let limit: u128 = if w == 128 { u128::MAX } else { (1u128 << w) - 1 };
                    if limit <= tymax(ty) as u128 {
                        continue; // covered by the type's own limit above
                    }
                    for div in [100u128, 10] {
                        for d in [-2i32, -1, 0, 1] {
                            let base = (limit / div).wrapping_add(d as i128 as u128);
                            let prefix = digits128(base);
                            for last in 0..=255u8 {
                                let mut b = prefix.clone();
                                b.push(last);
                                let r = check_bcd_digits(ty, &b);
                                nw += 1;
                                if r.is_err() {
                                    ctx.record(r, st);
                                }
                            }
                        }
                    }
                }
            }
            st.enumerated(nw, nw);
            st.class_n("bcd-digits:near-2^w-prefix-x-every-last-byte(w=8..128)", nw);
            // every 1- and 2-byte string exhaustively (strict and non-strict alike)
            for a in 0..=255u8 {
                for ty in TYS {
                    ctx.record(check_bcd_digits(ty, &[a]), st);
                }
                for b in 0..=255u8 {
                    for ty in TYS {
                        let r = check_bcd_digits(ty, &[a, b]);
                        if r.is_err() {
                            ctx.record(r, st);
                        }
                    }
                }
            }
            st.enumerated(5 * (256 + 65536), 5 * (256 + 65536));
            st.class_n("bcd-digits:exhaustive<=2bytes", 5 * (256 + 65536));
        }
        let digit = prop_oneof![8 => 0u8..10, 1 => Just(9u8)];
        let strat = prop_oneof![4 => 0usize..=11, 1 => 12usize..=24].prop_flat_map(move |n| (proptest::collection::vec((digit.clone(), digit.clone()), n), any::<bool>(), 0u8..12));
        ctx.proptest(seed, nrand / 8, &strat, st, |(ds, lastf, lead_zero), st| {
            let mut b: Vec<u8> = ds.iter().map(|(h, l)| h << 4 | l).collect();
            // leading zero bytes keep the value small while the string is long
            for k in 0..(*lead_zero as usize).min(b.len()) {
                if k + 1 < b.len() {
                    b[k] = 0;
                }
            }
            if *lastf {
                if let Some(l) = b.last_mut() {
                    *l |= 0x0f;
                }
            }
            st.case(!b.is_empty(), fnv(&b));
            st.class(&format!("bcd-digits:len={}", b.len()));
            if strict_bcd_value(&b).map(|v| v > u64::MAX as u128).unwrap_or(true) {
                st.class("bcd-digits:overflows-u64");
            }
            for ty in TYS {
                check_bcd_digits(ty, &b)?;
            }
            Ok(())
        });
    });
    stats.merge(s);
    stats.sample(|| json!({"check": "bcd_digits", "ty": "u8", "bytes": "9999", "expect": "error: 9999 does not fit u8"}));
    stats.sample(|| json!({"check": "bcd_digits", "ty": "u16", "bytes": "123f", "expect": "123"}));

    // 3. all 65 536 tag numbers
    let s = ctx.shards("tags", 16, |i, _seed, st| {
        let mut n = i as u32;
        while n <= 0xffff {
            let r = check_tag(n as u16, if n % 2 == 0 { &[] } else { &[0x06, 0x00, 0x1f] });
            ctx.record(r, st);
            n += 16;
        }
        st.enumerated(4096, 4096);
        st.class_n("tags", 4096);
    });
    stats.merge(s);
    stats.sample(|| json!({"check": "tag", "tag": "0x1f62", "bytes": "1f62", "note": "numbers 1Fxx / FFxx take two bytes big-endian, others one"}));

    // 4. hex strings <= 64 bytes
    let s = ctx.shards("hex", 8, |_i, seed, st| {
        let strat = proptest::collection::vec(any::<u8>(), 0..=64);
        ctx.proptest(seed, nrand / 8, &strat, st, |b, st| {
            st.case(!b.is_empty(), fnv(b));
            st.class("hex");
            check_hex(b)
        });
    });
    stats.merge(s);

    // 5. CP437: every 1- and 2-byte string, every byte at every position of 3-byte strings, random <= 300
    let s = ctx.shards("cp437", 16, |i, seed, st| {
        let mut a = i as u32;
        while a < 256 {
            if a != 0 {
                ctx.record(check_cp437(&[a as u8]), st);
                st.enumerated(1, 1);
            }
            for b in 1..=255u8 {
                ctx.record(check_cp437(&[a as u8, b]), st);
                ctx.record(check_cp437(&[b'A', a as u8, b]), st);
                ctx.record(check_cp437(&[a as u8, 0xe1, b]), st);
            }
            st.enumerated(3 * 255, 3 * 255);
            st.class_n("cp437:enumerated", 3 * 255);
            a += 16;
        }
        let strat = proptest::collection::vec(any::<u8>(), 1..=300);
        ctx.proptest(seed, nrand / 16, &strat, st, |b, st| {
            let mut b = b.clone();
            if *b.last().unwrap() == 0 {
                *b.last_mut().unwrap() = 0xff;
            }
            st.case(true, fnv(&b));
            st.class("cp437:random");
            check_cp437(&b)
        });
    });
    stats.merge(s);
    stats.sample(|| json!({"check": "cp437", "bytes": "8e9ae1", "text": "ÄÜß"}));

    // 6. receipt numbers
    for x in (0..=9999u64).chain([0xffff]) {
        ctx.record(check_receipt(x), &mut stats);
    }
    stats.enumerated(10001, 10001);
    stats.class_n("receipt-number", 10001);
    stats.exhaustive_parts = vec![
        "u8, u16 (LE, BE, BCD) all values".into(),
        "all 65 536 tag numbers (Default and BigEndian)".into(),
        "BCD inputs: every 1- and 2-byte string for every integer type".into(),
        "CP437: every 1- and 2-byte string not ending in NUL".into(),
        "receipt numbers 0..=9999 and 65535".into(),
    ];
    ctx.finish(
        stats,
        "enumeration (u8/u16, tags, short BCD/CP437 strings, receipt numbers) + proptest (wider integers at digit/bit boundaries and uniform, BCD digit strings of length 0..=24 bytes (beyond u128), hex <= 64 bytes, CP437 <= 300 bytes). non-trivial = value >= 10 / non-empty string; distinct by (encoding, type, input)",
        &[
            "reference encoders (own BCD, own CP437 table from the Unicode mapping, own tag rules) are written independently of zvt_builder",
            "BCD strings with non-decimal nibbles or an F filler that is not the final low nibble are only required not to panic",
        ],
        false,
    )
}
