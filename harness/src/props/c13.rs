//! C13 — tagged fields: any order accepted, duplicates and missing fields reported, foreign tags never disturb decoded fields.
use crate::engine::*;
use crate::gen::*;
use crate::refc::*;
use crate::registry::*;
use crate::tree::*;
use serde::{Deserialize, Serialize};
use serde_json::{json, Value};
use zvt::ZVTError;

const P: &str = "C13";

#[derive(Serialize, Deserialize, Clone, Debug, PartialEq)]
pub enum Edit {
    /// new order of the present tagged groups (indices into the canonical order)
    Permute(Vec<usize>),
    /// copy present non-repeated group `which` so that it stands at position `at` of the tagged part
    Duplicate { which: usize, at: usize },
    /// remove these present mandatory groups
    Remove(Vec<usize>),
    /// insert `[tag][BER length][payload]` at gap `at` of the tagged part
    /// a repeated object the level cannot read to its end. `apart` = false: the last present group is a vector with >= 2
    /// elements, its last element loses its last byte (the container ends inside the element). `apart` = true: a copy of the
    /// first object of group `which`, cut short by one byte, is appended at the end of the level, behind a different group
    /// (the tag occurs twice, the second occurrence unreadable).
    Damaged { which: usize, apart: bool },
    /// (`bare`: the tag byte(s) alone, the next known group directly behind them)
    Foreign {
        at: usize,
        tag: u16,
        payload: Vec<u8>,
        #[serde(default)]
        bare: bool,
    },
}

/// indices (into the level's group list) of the tagged groups that produced bytes, in canonical order
fn present_tagged(gs: &[Group]) -> Vec<usize> {
    gs.iter().enumerate().filter(|(_, g)| g.tag.is_some() && !g.elems.is_empty()).map(|(i, _)| i).collect()
}
fn positional(gs: &[Group]) -> Vec<usize> {
    gs.iter().enumerate().filter(|(_, g)| g.tag.is_none()).map(|(i, _)| i).collect()
}
fn foreign_group(tag: u16, payload: &[u8], bare: bool) -> Group {
    let mut raw = tag_bytes(tag);
    if !bare {
        raw.push(payload.len() as u8);
        raw.extend_from_slice(payload);
    }
    Group { field: usize::MAX, name: "<foreign>".into(), tag: Some(tag), card: Card::Opt, elems: vec![Elem { tag: Some(tag), len: Len::Tlv, node: Node::Leaf(payload.to_vec()), announce: None, raw: Some(raw), prefix_override: None }], nested: None, enc: Enc::Bytes }
}

/// Apply `edit` at the level `path`. Returns the edited tree and the index (in the edited level) of the first tampered group.
fn apply(gs: &[Group], path: &[(usize, usize)], edit: &Edit) -> Option<(Vec<Group>, usize)> {
    let mut all = gs.to_vec();
    let lv = level_mut(&mut all, path);
    let pos = positional(lv);
    let tg = present_tagged(lv);
    let mut seq: Vec<Group> = vec![];
    let mut tampered = 0usize;
    match edit {
        Edit::Permute(order) => {
            if order.len() != tg.len() {
                return None;
            }
            let mut seen = vec![false; tg.len()];
            for &k in order {
                if k >= tg.len() || seen[k] {
                    return None;
                }
                seen[k] = true;
                seq.push(lv[tg[k]].clone());
            }
        }
        Edit::Duplicate { which, at } => {
            if *which >= tg.len() || *at > tg.len() || lv[tg[*which]].card == Card::Vec {
                return None;
            }
            for (k, &gi) in tg.iter().enumerate() {
                if k == *at {
                    seq.push(lv[tg[*which]].clone());
                }
                seq.push(lv[gi].clone());
            }
            if *at == tg.len() {
                seq.push(lv[tg[*which]].clone());
            }
            // the second occurrence is the tampered one
            tampered = pos.len() + if *at <= *which { *which + 1 } else { *at };
        }
        Edit::Remove(which) => {
            if which.is_empty() || which.iter().any(|k| *k >= tg.len() || lv[tg[*k]].card != Card::One) {
                return None;
            }
            for (k, &gi) in tg.iter().enumerate() {
                if !which.contains(&k) {
                    seq.push(lv[gi].clone());
                }
            }
            tampered = pos.len() + which.iter().min().unwrap();
        }
        Edit::Damaged { which, apart } => {
            if *which >= tg.len() || (!*apart && *which + 1 != tg.len()) || (*apart && *which + 1 == tg.len()) {
                return None;
            }
            let g = &lv[tg[*which]];
            if (!*apart && (g.card != Card::Vec || g.elems.len() < 2)) || g.elems.is_empty() {
                return None;
            }
            let victim = if *apart { &g.elems[0] } else { g.elems.last().unwrap() };
            let full = crate::tree::assemble_elem(victim);
            let tagw = g.tag.map(|t| tag_bytes(t).len()).unwrap_or(0);
            if tagw == 0 || full.len() <= tagw {
                return None;
            }
            let cut = Elem { tag: g.tag, len: Len::Tlv, node: Node::Leaf(vec![]), announce: None, raw: Some(full[..full.len() - 1].to_vec()), prefix_override: None };
            for (k, &gi) in tg.iter().enumerate() {
                let mut c = lv[gi].clone();
                if k == *which && !*apart {
                    *c.elems.last_mut().unwrap() = cut.clone();
                }
                seq.push(c);
            }
            if *apart {
                let mut c = g.clone();
                c.elems = vec![cut];
                seq.push(c);
            }
            tampered = pos.len() + if *apart { tg.len() } else { *which };
        }
        Edit::Foreign { at, tag, payload, bare } => {
            if *at > tg.len() || payload.len() > 100 {
                return None;
            }
            for (k, &gi) in tg.iter().enumerate() {
                if k == *at {
                    seq.push(foreign_group(*tag, payload, *bare));
                }
                seq.push(lv[gi].clone());
            }
            if *at == tg.len() {
                seq.push(foreign_group(*tag, payload, *bare));
            }
            tampered = pos.len() + at;
        }
    }
    let mut new_level: Vec<Group> = pos.iter().map(|&i| lv[i].clone()).collect();
    new_level.extend(seq);
    *lv = new_level;
    Some((all, tampered))
}

fn hdr_len(l: &Layout, body: usize) -> usize {
    match l.ctrl {
        None => 0,
        Some(_) => {
            if body < 255 {
                3
            } else {
                5
            }
        }
    }
}

/// "prefix value" oracle: the tree cut right before the tampered group (and everything after its enclosing containers),
/// re-assembled and read by the reference decoder. None = even the prefix is not a valid packet (only Err is acceptable).
fn prefix_value(t: &Table, l: &Layout, edited: &[Group], path: &[(usize, usize)], tampered: usize, elem_cut: Option<usize>) -> Option<String> {
    let mut cut = edited.to_vec();
    match elem_cut {
        None => truncate_at(&mut cut, path, tampered),
        Some(k) => truncate_before_elem(&mut cut, &path[..k], path[k].0, path[k].1),
    }
    let bytes = assemble_top(l, &cut)?;
    match decode(t, l, &bytes) {
        Ok((v, rest)) if rest.is_empty() => Some(render(&v)),
        _ => None,
    }
}

pub fn check_edit(t: &Table, e: &TypeEntry, v: &Val, path: &[(usize, usize)], edit: &Edit) -> CheckResult {
    let l = &t[e.name];
    let input = json!({"type": e.name, "value": v, "path": path, "edit": edit});
    let Ok(gs) = build(t, l, v) else { return Ok(()) };
    if !levels(&gs).iter().any(|(p, _)| p == path) {
        return Ok(());
    }
    let swallowed = levels(&gs).iter().find(|(p, _)| p == path).unwrap().1;
    let Some((edited, tampered)) = apply(&gs, path, edit) else { return Ok(()) };
    // the edit must not push a container beyond what its length prefix can announce
    if !fits(&edited) {
        return Ok(());
    }
    let Some(bytes) = assemble_top(l, &edited) else { return Ok(()) };
    let Some(canon) = assemble_top(l, &gs) else { return Ok(()) };
    let kind = match edit {
        Edit::Permute(_) => "permute",
        Edit::Duplicate { .. } => "duplicate",
        Edit::Remove(_) => "remove",
        Edit::Foreign { .. } => "foreign",
        Edit::Damaged { .. } => "damaged",
    };
    let ty = e.name;
    let depth = path.len();
    let got = guard(|| (e.decode)(&bytes)).map_err(|p| Violation::new("edit", format!("C13 type={ty} edit={kind} kind=panic"), format!("decoding {} panicked: {p}", clip(&hex(&bytes), 300)), input.clone()))?;
    let show = |r: &Result<(String, usize), ZVTError>| match r {
        Ok((d, rest)) => format!("Ok({}, {rest} bytes left)", clip(d, 400)),
        Err(e) => format!("Err({e:?})"),
    };
    match edit {
        Edit::Permute(_) => {
            let want = render(v);
            match &got {
                Ok((d, 0)) if *d == want => {
                    if (e.eq)(&bytes, &canon) == Some(true) {
                        Ok(())
                    } else {
                        Err(Violation::new("edit", format!("C13 type={ty} edit=permute depth={depth} kind=not-equal"), "permuted and canonical encodings decode to values that are not ==".to_string(), input))
                    }
                }
                _ => Err(Violation::new("edit", format!("C13 type={ty} edit=permute depth={depth} kind=order-dependent"), format!("permuted tagged groups\n  bytes {}\n  decode to {}\n  expected the canonical value {}", clip(&hex(&bytes), 300), show(&got), clip(&want, 400)), input)),
            }
        }
        Edit::Duplicate { which, .. } if !swallowed => {
            let lv = level(&gs, path);
            let tag = lv[present_tagged(lv)[*which]].tag.unwrap();
            match &got {
                Err(ZVTError::DuplicateTag(zvt::Tag(x))) if *x == tag => Ok(()),
                _ => Err(Violation::new("edit", format!("C13 type={ty} edit=duplicate depth={depth} kind=duplicate-not-reported"), format!("tag {tag:#x} occurs twice in {}\n  result {}\n  expected Err(DuplicateTag(Tag({tag})))", clip(&hex(&bytes), 300), show(&got)), input)),
            }
        }
        // the level holds an object of a repeated tag that it cannot read: the packet cannot be decoded. (At the top level an
        // implementation may also end the vector in front of the element and hand it back with the rest.)
        Edit::Damaged { which, apart } if !swallowed => match &got {
            Err(_) => Ok(()),
            Ok((d, rest)) => {
                let lv = level(&edited, path);
                let cut_len = lv.last().and_then(|g| g.elems.last()).map(|e| crate::tree::assemble_elem(e).len()).unwrap_or(0);
                let mut shorter = edited.clone();
                let lvm = level_mut(&mut shorter, path);
                let li = lvm.len() - 1;
                lvm[li].elems.pop();
                if lvm[li].elems.is_empty() {
                    lvm.pop();
                }
                let want = assemble_top(l, &shorter).and_then(|b| match decode(t, l, &b) {
                    Ok((v, r)) if r.is_empty() => Some(render(&v)),
                    _ => None,
                });
                if path.is_empty() && want.as_deref() == Some(d.as_str()) && *rest == cut_len {
                    return Ok(());
                }
                let _ = which;
                Err(Violation::new(
                    "edit",
                    format!("C13 type={ty} edit=damaged depth={depth} kind={}", if *apart { "unreadable-second-occurrence-accepted" } else { "unreadable-vector-element-accepted" }),
                    format!("the last object of the level ({cut_len} bytes) is cut short by the end of its container in {}\n  result {}\n  expected an error{}", clip(&hex(&bytes), 300), show(&got), if path.is_empty() { " (or the value without it, the object handed back)" } else { "" }),
                    input,
                ))
            }
        },
        Edit::Damaged { .. } => Ok(()),
        Edit::Remove(which) if !swallowed => {
            let lv = level(&gs, path);
            let tg = present_tagged(lv);
            let mut tags: Vec<u16> = which.iter().map(|k| lv[tg[*k]].tag.unwrap()).collect();
            tags.sort();
            match &got {
                Err(ZVTError::MissingRequiredTags(ts)) if ts.iter().map(|t| t.0).collect::<Vec<_>>() == tags => Ok(()),
                _ => Err(Violation::new("edit", format!("C13 type={ty} edit=remove depth={depth} kind=missing-not-reported"), format!("mandatory tags {tags:x?} removed from {}\n  result {}\n  expected Err(MissingRequiredTags({tags:?})) (all of them, ascending)", clip(&hex(&bytes), 300), show(&got)), input)),
            }
        }
        // foreign tag anywhere; duplicate / removal inside a Vec element ("failure = end of vector"):
        // Err, or exactly the value of the bytes in front of the tampered group, which is handed back with everything after it
        _ => match &got {
            Err(_) => Ok(()),
            Ok((d, rest)) => {
                let body = assemble(&edited).len();
                // Where does decoding stop? A foreign tag stops its level right there if what precedes it is complete;
                // otherwise (and for a duplicate / removal) the level fails, and a failure below a Vec element ends that
                // vector in front of the element ("failure = end of vector"), possibly cascading outwards.
                let mut cuts: Vec<Option<usize>> = vec![];
                if matches!(edit, Edit::Foreign { .. }) {
                    cuts.push(None);
                }
                cuts.extend(swallowing_steps(&edited, path).into_iter().rev().map(Some));
                // every level at which the failure may come to rest is acceptable: a failed element that is not the
                // first of its vector makes the vector's tag re-appear (DuplicateTag one level up), which cascades
                let cut_off = |c: Option<usize>| {
                    hdr_len(l, body)
                        + match c {
                            None => offset_of(&edited, path, tampered),
                            Some(k) => offset_of_elem(&edited, &path[..k], path[k].0, path[k].1),
                        }
                };
                for c in &cuts {
                    if let Some(want) = prefix_value(t, l, &edited, path, tampered, *c) {
                        if *d == want && *rest == bytes.len() - cut_off(*c) {
                            return Ok(());
                        }
                    }
                }
                let elem_cut = cuts.iter().copied().find(|c| prefix_value(t, l, &edited, path, tampered, *c).is_some()).unwrap_or(cuts.first().copied().flatten());
                let off = cut_off(elem_cut);
                let want_rest = bytes.len() - off;
                match prefix_value(t, l, &edited, path, tampered, elem_cut) {
                    Some(want) if *d == want && *rest == want_rest => Ok(()),
                    // the vector ends in front of the failed element, as it must - but the element's bytes vanish: nobody parsed
                    // them, nobody reports them (the tag of the vector re-appearing is a duplicate one level up)
                    Some(want) if *d == want && !matches!(edit, Edit::Foreign { .. }) && !swallowing_steps(&edited, path).is_empty() => Err(Violation::new(
                        "edit",
                        format!("C13 type={ty} edit={kind} depth={depth} kind=failed-vec-element-dropped-silently"),
                        format!("the element at byte {off} of {} fails, its vector ends in front of it and the rest of the container is dropped without an error\n  result {}\n  expected an error, or the value of the preceding bytes with {want_rest} bytes handed back", clip(&hex(&bytes), 300), show(&got)),
                        input,
                    )),
                    // a failed vector element is not handed back: the enclosing level parsed (part of) its bytes
                    _ if !matches!(edit, Edit::Foreign { .. }) && !swallowing_steps(&edited, path).is_empty() && *rest < want_rest => Err(Violation::new(
                        "edit",
                        "C13 kind=failed-vec-element-bytes-adopted-by-enclosing-level".to_string(),
                        format!("type {ty}, {kind} at depth {depth}: the element at byte {off} of {} fails (so its vector ends in front of it), but its bytes were parsed by an enclosing level instead of being handed back\n  result {}", clip(&hex(&bytes), 300), show(&got)),
                        input,
                    )),
                    want => Err(Violation::new(
                        "edit",
                        // unconsumed bytes of a nested container are handed to the enclosing level, where a positional
                        // field parses them by position (only reachable with layouts the shipped packets never use)
                        if matches!(edit, Edit::Foreign { .. }) && positional_follows_on_path(&edited, path) { format!("C13 type={ty} edit={kind} depth={depth} kind=foreign-tag-in-container-reparsed-by-positional-sibling") } else { format!("C13 type={ty} edit={kind} depth={depth} kind=disturbs-decoded-fields") },
                        format!("tampered group at byte {off} of {}\n  result {}\n  expected an error, or the value of the preceding bytes {} with {want_rest} bytes handed back", clip(&hex(&bytes), 300), show(&got), want.map(|w| clip(&w, 400)).unwrap_or("<none: prefix is not a valid packet>".into())),
                        input,
                    )),
                }
            }
        },
    }
}

/// The date/time value (TLV 34) is itself a group of two tagged objects, 1f0e (date) and 1f0f (time), read by a hand-written
/// loop. Variants of that group: 0 = time first; 1..=6 = one of the two objects repeated at position 0 / 1 / 2; 7, 8 = one
/// object removed. Applied to the first date/time element of the value's tree.
pub const DATETIME_VARIANTS: usize = 9;
pub fn find_datetime(gs: &mut [Group]) -> Option<&mut Elem> {
    for g in gs.iter_mut() {
        let is_dt = g.enc == Enc::DateTime;
        for e in g.elems.iter_mut() {
            if is_dt {
                return Some(e);
            }
            if let Node::Struct(inner) = &mut e.node {
                if let Some(x) = find_datetime(inner) {
                    return Some(x);
                }
            }
        }
    }
    None
}
pub fn check_datetime_edit(t: &Table, e: &TypeEntry, v: &Val, variant: usize) -> CheckResult {
    let l = &t[e.name];
    let input = json!({"type": e.name, "value": v, "variant": variant});
    let Ok(mut gs) = build(t, l, v) else { return Ok(()) };
    let Some(canon) = assemble_top(l, &gs) else { return Ok(()) };
    let Some(el) = find_datetime(&mut gs) else { return Ok(()) };
    let Node::Leaf(b) = &el.node else { return Ok(()) };
    if b.len() != 13 || b[..3] != [0x1f, 0x0e, 0x04] || b[7..10] != [0x1f, 0x0f, 0x03] {
        return Ok(());
    }
    let (date, time) = (b[..7].to_vec(), b[7..].to_vec());
    let (parts, expect): (Vec<&Vec<u8>>, Option<u16>) = match variant {
        0 => (vec![&time, &date], None),
        1 => (vec![&date, &date, &time], Some(0x1f0e)),
        2 => (vec![&date, &time, &date], Some(0x1f0e)),
        3 => (vec![&time, &date, &date], Some(0x1f0e)),
        4 => (vec![&time, &time, &date], Some(0x1f0f)),
        5 => (vec![&time, &date, &time], Some(0x1f0f)),
        6 => (vec![&date, &time, &time], Some(0x1f0f)),
        7 => (vec![&date], Some(0)),
        _ => (vec![&time], Some(0)),
    };
    el.node = Node::Leaf(parts.into_iter().flatten().copied().collect());
    let Some(bytes) = assemble_top(l, &gs) else { return Ok(()) };
    let ty = e.name;
    let got = guard(|| (e.decode)(&bytes)).map_err(|p| Violation::new("datetime", format!("C13 type={ty} edit=datetime kind=panic"), format!("decoding {} panicked: {p}", clip(&hex(&bytes), 300)), input.clone()))?;
    let show = |r: &Result<(String, usize), ZVTError>| match r {
        Ok((d, rest)) => format!("Ok({}, {rest} bytes left)", clip(d, 300)),
        Err(e) => format!("Err({e:?})"),
    };
    match expect {
        None => match &got {
            Ok((d, 0)) if *d == render(v) && (e.eq)(&bytes, &canon) == Some(true) => Ok(()),
            _ => Err(Violation::new("datetime", format!("C13 type={ty} edit=datetime-permute kind=order-dependent"), format!("time object in front of the date object: {}
  result {}
  expected the canonical value", clip(&hex(&bytes), 300), show(&got)), input)),
        },
        Some(0) => match &got {
            Err(_) => Ok(()),
            _ => Err(Violation::new("datetime", format!("C13 type={ty} edit=datetime-remove kind=missing-not-reported"), format!("one of the two objects removed: {}
  result {}
  expected an error", clip(&hex(&bytes), 300), show(&got)), input)),
        },
        Some(tag) => match &got {
            Err(ZVTError::DuplicateTag(zvt::Tag(x))) if *x == tag => Ok(()),
            _ => Err(Violation::new("datetime", format!("C13 type={ty} edit=datetime-duplicate kind=duplicate-not-reported"), format!("tag {tag:#x} occurs twice inside the date/time value: {}
  result {}
  expected Err(DuplicateTag(Tag({tag})))", clip(&hex(&bytes), 300), show(&got)), input)),
        },
    }
}

/// deterministic pseudo-random permutation of 0..n
fn perm(n: usize, seed: u64) -> Vec<usize> {
    let mut p: Vec<usize> = (0..n).collect();
    let mut s = seed;
    for i in (1..n).rev() {
        s = splitmix(s);
        p.swap(i, (s % (i as u64 + 1)) as usize);
    }
    p
}
fn all_perms(n: usize) -> Vec<Vec<usize>> {
    fn rec(cur: &mut Vec<usize>, used: &mut Vec<bool>, n: usize, out: &mut Vec<Vec<usize>>) {
        if cur.len() == n {
            out.push(cur.clone());
            return;
        }
        for i in 0..n {
            if !used[i] {
                used[i] = true;
                cur.push(i);
                rec(cur, used, n, out);
                cur.pop();
                used[i] = false;
            }
        }
    }
    let mut out = vec![];
    rec(&mut vec![], &mut vec![false; n], n, &mut out);
    out
}

/// Enumerate the edits of one value: every level x {permutations, duplicates, removals, foreign insertions}.
pub fn edits_of(t: &Table, name: &str, v: &Val, max_perm_full: usize, sampled_perms: usize) -> Vec<(Path, Edit)> {
    let l = &t[name];
    let Ok(gs) = build(t, l, v) else { return vec![] };
    let mut known = vec![];
    all_tags(t, name, &mut known);
    let h = fnv(&assemble(&gs));
    // foreign tags unknown to the whole packet tree: one single-byte and one two-byte candidate
    let f1 = (0x20u16..0xff).map(|k| (k + (h % 97) as u16) % 0xdf + 0x20).find(|c| *c != 0x1f && *c != 0xff && !known.contains(c)).unwrap_or(0x7e);
    let f2 = (0u16..256).map(|k| 0x1f00 | ((k + (h >> 8) as u16) & 0xff)).find(|c| !known.contains(c)).unwrap_or(0x1f7e);
    let mut out = vec![];
    for (path, _) in levels(&gs) {
        let lv = level(&gs, &path);
        let mut tg = present_tagged(lv);
        if tg.is_empty() && !lv.iter().any(|g| g.tag.is_some()) {
            continue;
        }
        // a tagged field without length prefix and without intrinsic size consumes the rest of its level: it is only
        // decodable in last position (grammar rule), so it stays there and nothing is placed behind it
        let greedy_tail = tg.last().map(|gi| lv[*gi].elems.iter().any(|e| e.len == Len::None) && !matches!(lv[*gi].enc, Enc::Le(_) | Enc::Be(_))).unwrap_or(false);
        if greedy_tail {
            tg.pop();
        }
        let n = tg.len();
        // an absent positional optional (or a positional vector) in front of the tagged part would read a moved /
        // foreign group as that field: such inputs are outside the canonical domain (DESIGN.md 5.1)
        let ambiguous = lv.iter().any(|g| g.tag.is_none() && ((g.card == Card::Opt && g.elems.is_empty()) || g.card == Card::Vec));
        let fix = |mut p: Vec<usize>| {
            if greedy_tail {
                p.push(n);
            }
            p
        };
        if n >= 2 {
            if n <= max_perm_full {
                for p in all_perms(n) {
                    if p.iter().enumerate().any(|(i, k)| i != *k) {
                        out.push((path.clone(), Edit::Permute(fix(p))));
                    }
                }
            } else {
                let mut rev: Vec<usize> = (0..n).collect();
                rev.reverse();
                out.push((path.clone(), Edit::Permute(fix(rev))));
                for k in 0..sampled_perms {
                    out.push((path.clone(), Edit::Permute(fix(perm(n, h ^ k as u64)))));
                }
            }
        }
        // duplicates: each present non-repeated group to every position (sampled by stride when many)
        let total = n * (n + 1);
        let stride = (total / 48).max(1);
        let mut c = (h % stride as u64) as usize;
        for which in 0..n {
            if lv[tg[which]].card == Card::Vec {
                continue;
            }
            for at in 0..=n {
                if c % stride == 0 {
                    out.push((path.clone(), Edit::Duplicate { which, at }));
                }
                c += 1;
            }
        }
        // removals: every non-empty subset of the present mandatory groups (<= 5)
        let mand: Vec<usize> = (0..n).filter(|k| lv[tg[*k]].card == Card::One).collect();
        if !mand.is_empty() && mand.len() <= 5 {
            for mask in 1u32..(1 << mand.len()) {
                out.push((path.clone(), Edit::Remove(mand.iter().enumerate().filter(|(b, _)| mask >> b & 1 == 1).map(|(_, k)| *k).collect())));
            }
        }
        // unreadable repeated objects: the last element of a trailing vector cut short; a cut-short copy of every other group's
        // first object behind the last group
        if !greedy_tail {
            if n >= 1 && lv[tg[n - 1]].card == Card::Vec && lv[tg[n - 1]].elems.len() >= 2 {
                out.push((path.clone(), Edit::Damaged { which: n - 1, apart: false }));
            }
            for k in 0..n.saturating_sub(1) {
                out.push((path.clone(), Edit::Damaged { which: k, apart: true }));
            }
        }
        // foreign: every gap, alternating the two candidate tags
        for at in 0..=n {
            if ambiguous && at == 0 {
                continue;
            }
            let pl: Vec<u8> = (0..((h >> (at % 8)) % 9) as u8).map(|x| x.wrapping_mul(37) ^ at as u8).collect();
            out.push((path.clone(), Edit::Foreign { at, tag: if at % 2 == 0 { f1 } else { f2 }, payload: pl, bare: false }));
            // a single unknown byte with the next known group directly behind it; tag values a lenient reader might take for
            // padding / fill bytes (00, 80, fe) among them
            let specials: Vec<u16> = [0x00u16, 0x80, 0xfe, 0x01].into_iter().filter(|c| !known.contains(c)).collect();
            if !specials.is_empty() {
                let tag = specials[(at + (h >> 16) as usize % 2) % specials.len().min(2)];
                out.push((path.clone(), Edit::Foreign { at, tag, payload: vec![], bare: true }));
            }
        }
    }
    out
}

/// Packets of type `name` holding a repeated object that is cut short by the end of its container (`Edit::Damaged` at levels
/// outside vector elements), as far as the reference decoder rejects them: packets that cannot be decoded (C06's fault set).
pub fn damaged_packets(t: &Table, name: &str, v: &Val) -> Vec<Vec<u8>> {
    let l = &t[name];
    let Ok(gs) = build(t, l, v) else { return vec![] };
    let lv = levels(&gs);
    edits_of(t, name, v, 0, 0)
        .into_iter()
        .filter(|(p, e)| matches!(e, Edit::Damaged { .. }) && !lv.iter().find(|(q, _)| q == p).map(|x| x.1).unwrap_or(true))
        .filter_map(|(p, e)| {
            let (ed, _) = apply(&gs, &p, &e)?;
            if !fits(&ed) {
                return None;
            }
            let b = assemble_top(l, &ed)?;
            if decode(t, l, &b).is_ok() {
                None
            } else {
                Some(b)
            }
        })
        .collect()
}

/// Shared state of the coverage-guided target.
pub struct FuzzCtx {
    pub t: std::sync::Arc<Table>,
    pub tys: Vec<TypeEntry>,
    pub idx: Vec<usize>,
}
impl FuzzCtx {
    pub fn new() -> Self {
        let t = crate::table();
        let tys = types();
        let idx = (0..tys.len())
            .filter(|i| {
                let mut v = vec![];
                all_tags(&t, tys[*i].name, &mut v);
                !v.is_empty()
            })
            .collect();
        FuzzCtx { t, tys, idx }
    }
}
/// libFuzzer input -> (type, value, edit): byte 0 selects the type, bytes 1..3 the edit, the rest the value.
pub fn case_from_fuzz(ctx: &FuzzCtx, data: &[u8]) -> Option<(usize, Val, Path, Edit)> {
    if data.len() < 4 {
        return None;
    }
    let ti = ctx.idx[data[0] as usize % ctx.idx.len()];
    let sel = u16::from_le_bytes([data[1], data[2]]) as usize;
    let mut rest = &data[3..];
    let name = ctx.tys[ti].name;
    let v = crate::gen::value_from_bytes(&ctx.t, name, &mut rest, 0);
    if !is_canonical(&ctx.t, &ctx.t[name], &v) {
        return None;
    }
    let edits = edits_of(&ctx.t, name, &v, 5, 24);
    if edits.is_empty() {
        return None;
    }
    let (path, edit) = edits[sel % edits.len()].clone();
    Some((ti, v, path, edit))
}
pub fn check_fuzz_input(ctx: &FuzzCtx, data: &[u8]) -> CheckResult {
    match case_from_fuzz(ctx, data) {
        Some((ti, v, path, edit)) => check_edit(&ctx.t, &ctx.tys[ti], &v, &path, &edit),
        None => Ok(()),
    }
}

pub fn replay(check: &str, i: &Value) -> Option<CheckResult> {
    if check == "lab" {
        return crate::props::c12::replay_for(P, i);
    }
    if check == "datetime" {
        let t = crate::table();
        let name = i.get("type")?.as_str()?;
        let v: Val = serde_json::from_value(i.get("value")?.clone()).ok()?;
        let e = types().into_iter().find(|e| e.name == name)?;
        return Some(check_datetime_edit(&t, &e, &v, i.get("variant")?.as_u64()? as usize));
    }
    let t = crate::table();
    let name = i.get("type")?.as_str()?;
    let v: Val = serde_json::from_value(i.get("value")?.clone()).ok()?;
    let path: Path = serde_json::from_value(i.get("path")?.clone()).ok()?;
    let edit: Edit = serde_json::from_value(i.get("edit")?.clone()).ok()?;
    let e = types().into_iter().find(|e| e.name == name)?;
    if !is_canonical(&t, &t[name], &v) {
        return Some(Ok(()));
    }
    Some(check_edit(&t, &e, &v, &path, &edit))
}

pub fn run(tier: Tier) -> i32 {
    let ctx = Ctx::new(P, "exploration", tier);
    let mut stats = Stats::new();
    stats.sample_cap = 8;
    crate::run_regressions(&ctx, &mut stats, replay);
    let t = crate::table();
    let tys = types();
    // only types whose tree contains a tagged field
    let idx: Vec<usize> = (0..tys.len())
        .filter(|i| {
            let mut v = vec![];
            all_tags(&t, tys[*i].name, &mut v);
            !v.is_empty()
        })
        .collect();
    let per_type: u32 = tier.pick(250, 4000);
    let parts: u64 = tier.pick(1, 8);
    let s = ctx.shards("types", idx.len() as u64 * parts, |i, seed, st| {
        let e = &tys[idx[(i % idx.len() as u64) as usize]];
        let l = t[e.name].clone();
        let strat = strategy_for(&t, e.name, GenCfg { vec_max: 3, text_max: 40, blob_max: 40 });
        ctx.proptest(seed, per_type / parts as u32, &strat, st, |v, st| {
            if !is_canonical(&t, &l, v) {
                st.class("discarded-non-canonical");
                return Ok(());
            }
            let edits = edits_of(&t, e.name, v, tier.pick(4, 6), tier.pick(12, 200));
            let gs = build(&t, &l, v).unwrap();
            let lvls = levels(&gs);
            for (path, edit) in edits {
                let lv = level(&gs, &path);
                let n = present_tagged(lv).len();
                let kind = match &edit {
                    Edit::Permute(_) => "permute",
                    Edit::Duplicate { .. } => "duplicate",
                    Edit::Remove(_) => "remove",
                    Edit::Damaged { apart: true, .. } => "damaged-second-occurrence",
                    Edit::Damaged { .. } => "damaged-last-element",
                    Edit::Foreign { bare: true, tag, .. } => if *tag == 0 { "foreign-bare-00" } else { "foreign-bare" },
                    Edit::Foreign { .. } => "foreign",
                };
                let sw = lvls.iter().find(|(p, _)| *p == path).unwrap().1;
                st.case(n >= 3 || !path.is_empty(), fnv(&serde_json::to_vec(&(&e.name, v, &path, &edit)).unwrap()));
                st.class(&format!("{kind}{}", if sw { ":inside-vec-element" } else if !path.is_empty() { ":nested" } else { "" }));
                if st.samples.len() < 1 && n >= 3 && i < idx.len() as u64 {
                    st.sample(|| json!({"type": e.name, "value": clip(&render(v), 300), "path": path, "edit": edit}));
                }
                check_edit(&t, e, v, &path, &edit)?;
            }
            // the date/time value is a tagged group of its own (hand-written decoder)
            let mut probe = gs.clone();
            if find_datetime(&mut probe).is_some() {
                for variant in 0..DATETIME_VARIANTS {
                    st.case(true, fnv(&serde_json::to_vec(&(&e.name, v, "datetime", variant)).unwrap()));
                    st.class("datetime-group-edit");
                    check_datetime_edit(&t, e, v, variant)?;
                }
            }
            Ok(())
        });
    });
    stats.merge(s);
    if tier == Tier::Thorough {
        let fz = FuzzCtx::new();
        let seeds: Vec<Vec<u8>> = (0..idx.len() as u8).map(|k| vec![k, 1, 0, 3, 1, 2, 1, 5, 1, 9, 1, 4, 1, 4, 2, 7, 1, 1, 1, 1, 1, 1, 1, 1, 1]).collect();
        match fuzz_campaign("tag_edit", 300_000, 512, ctx.seed, &seeds) {
            Err(e) => stats.notes.push(format!("coverage-guided layer skipped (infrastructure): {e}")),
            Ok((crash, stat)) => {
                stats.class_n("libfuzzer-runs", 300_000);
                stats.evaluations += 300_000;
                stats.notes.push(format!("libFuzzer tag_edit: {stat}"));
                if let Some(input) = crash {
                    let r = check_fuzz_input(&fz, &input);
                    if r.is_ok() {
                        stats.notes.push(format!("libFuzzer saved an input that does not reproduce deterministically: {}", clip(&hex(&input), 200)));
                    }
                    ctx.record(r, &mut stats);
                }
            }
        }
    }
    // the same edits on generated structs (layouts no shipped packet has, e.g. three and more mandatory tags at one level)
    match crate::props::c12::lab_side(P, &ctx, tier) {
        Ok(s) => {
            let mut s = s;
            let vs = std::mem::take(&mut s.violations);
            stats.merge(s);
            for v in vs {
                ctx.record(Err(v), &mut stats);
            }
        }
        Err(code) => return code,
    }
    ctx.finish(
        stats,
        "shipped types with tagged fields x proptest-generated canonical values x edits of the group list the reference encoder returns per struct level (top level and every nested container, enclosing length prefixes recomputed): every permutation of <= 4 (thorough 6) present tagged groups and sampled ones above; each present non-repeated group duplicated to every position; every non-empty subset of mandatory groups removed; a tag unknown to the whole packet tree inserted at every gap (with length and payload, and as a bare unknown byte 00 / 80 / fe / 01 with the next known group directly behind it); inside a date/time value (objects 1f0e, 1f0f, hand-written decoder): swapped, each object repeated at every position, each removed. non-trivial = >= 3 tagged groups present at the edited level, or the level is nested; distinct by (type, value, level, edit)",
        &[
            "foreign tags are chosen unknown to every level of the packet tree, so re-offering the remainder to the enclosing level cannot adopt them",
            "inside a Vec element (failure = end of vector, documented in zvt_builder) duplicates/removals are judged by the weaker prefix predicate",
            "generated structs: a program of random #[derive(Zvt)] definitions (C12's generator incl. its directed families) is compiled against /repo's macro in a private lab crate and the same edit oracle is applied to canonical values of each (classes prefixed lab:)",
        ],
        false,
    )
}
