//! C05 — sequences acknowledge every packet once and stop at the final packet;
//! C06 — a failed exchange yields exactly one error, then silence. Shared machinery.
use crate::engine::*;
use crate::gen::*;
use crate::peer::*;
use crate::refc::*;
use crate::registry::*;
use crate::seqs::*;
use proptest::prelude::*;
use serde::{Deserialize, Serialize};
use serde_json::{json, Value};
use std::sync::Arc;

pub const ACK: [u8; 3] = [0x80, 0x00, 0x00];

#[derive(Serialize, Deserialize, Clone, Debug)]
pub struct SeqCase {
    pub seq: String,
    /// hex of the command packet
    pub cmd: String,
    /// hex of each reply packet, in order
    pub replies: Vec<String>,
    /// hex of bytes queued behind the final packet
    pub trailing: String,
    pub chunks: Vec<usize>,
    /// hex of the terminal's positive acknowledgement (None: 80 00 00); the control field 80 00 may carry a data block
    #[serde(default)]
    pub ack: Option<String>,
    /// the connection accepts at most this many bytes per write (short writes); None = whole buffers
    #[serde(default)]
    pub write_limit: Option<usize>,
}
/// positive acknowledgements a terminal may send: empty, with a data block (as in the Feig extension), extended length form
pub const ACKS: [&str; 7] = ["800000", "80000100", "800003060f00", "800004061e016c", "8000ff0000", "8000ff0300aabbcc", "800002ffff"];

#[derive(Serialize, Deserialize, Clone, Debug)]
pub struct Fault {
    /// 0 = instead of the acknowledgement, j >= 1 = instead of reply j
    pub pos: usize,
    pub kind: String,
    /// hex of what the terminal sends at the position (possibly a truncated packet, possibly nothing)
    pub bytes: String,
}

pub struct Model {
    pub t: Arc<Table>,
    pub seqs: Vec<SeqEntry>,
    pub etab: Vec<(&'static str, Vec<(u8, u8, &'static str, &'static str)>)>,
    pub tys: Vec<TypeEntry>,
}
impl Model {
    pub fn new() -> Self {
        Model { t: crate::table(), seqs: sequences(), etab: enum_table(), tys: types() }
    }
    pub fn seq(&self, name: &str) -> Option<&SeqEntry> {
        self.seqs.iter().find(|s| s.name == name)
    }
    pub fn owned(&self, s: &SeqEntry) -> &Vec<(u8, u8, &'static str, &'static str)> {
        &self.etab.iter().find(|(n, _)| *n == s.replies).unwrap().1
    }
    pub fn is_final(&self, s: &SeqEntry, c: u8, i: u8) -> bool {
        s.finals.is_empty() || s.finals.contains(&(c, i))
    }
    /// expected Debug of the item the caller receives for this reply: "<Variant>(<value>)"
    pub fn expected_item(&self, s: &SeqEntry, reply: &[u8]) -> Option<String> {
        if reply.len() < 3 {
            return None;
        }
        let (_, _, variant, ty) = self.owned(s).iter().find(|(c, i, _, _)| *c == reply[0] && *i == reply[1])?;
        let (v, _) = decode(&self.t, &self.t[*ty], reply).ok()?;
        Some(format!("{variant}({})", render(&v)))
    }
    /// the script is well-formed for the sequence: every reply in the reply set and decodable, only the last one final
    pub fn well_formed(&self, s: &SeqEntry, replies: &[Vec<u8>]) -> bool {
        if replies.is_empty() {
            return false;
        }
        for (k, r) in replies.iter().enumerate() {
            if self.expected_item(s, r).is_none() {
                return false;
            }
            let fin = self.is_final(s, r[0], r[1]);
            if fin != (k + 1 == replies.len()) {
                return false;
            }
        }
        true
    }
}

fn sig(prop: &str, seq: &str, kind: &str) -> String {
    format!("{prop} seq={seq} kind={kind}")
}

/// C05: the exact expected trace for a well-formed script.
pub fn check_seq(m: &Model, c: &SeqCase) -> CheckResult {
    let input = serde_json::to_value(c).unwrap();
    let Some(s) = m.seq(&c.seq) else { return Ok(()) };
    let replies: Vec<Vec<u8>> = c.replies.iter().map(|h| unhex(h)).collect();
    if !m.well_formed(s, &replies) {
        return Ok(());
    }
    let cmd = unhex(&c.cmd);
    let trailing = unhex(&c.trailing);
    let ack = c.ack.as_ref().map(|a| unhex(a)).unwrap_or(ACK.to_vec());
    let mut script = vec![ack.clone()];
    script.extend(replies.iter().cloned());
    let mut peer = Peer::scripted(script, trailing.clone(), c.chunks.clone());
    peer.write_limit = c.write_limit;
    let run = guard(|| (s.run)(&cmd, peer, replies.len() + 3)).map_err(|p| Violation::new("seq", sig("C05", &c.seq, "panic"), p, input.clone()))?;
    if run.bad_command.is_some() {
        return Ok(());
    }
    let v = |kind: &str, detail: String| Err(Violation::new("seq", sig("C05", &c.seq, kind), detail, input.clone()));
    let n = replies.len();
    let show = |i: &Option<Result<String, String>>| match i {
        None => "None".to_string(),
        Some(Ok(d)) => format!("Ok({})", clip(d, 200)),
        Some(Err(e)) => format!("Err({})", clip(e, 200)),
    };
    let mut boundary = ack.len();
    for k in 0..n {
        boundary += replies[k].len();
        let Some(sn) = run.snaps.get(k) else { return v("stream-ended-early", format!("only {} items for {n} replies", run.snaps.len())) };
        let want = m.expected_item(s, &replies[k]).unwrap();
        match &sn.item {
            Some(Ok(d)) if *d == want => {}
            other => return v("wrong-item", format!("item {k}: {} expected Ok({})", show(other), clip(&want, 200))),
        }
        if sn.client_apdus != k + 2 {
            return v(
                if sn.client_apdus < k + 2 { "handed-over-before-answering" } else { "answered-more-than-once" },
                format!("when item {k} was handed to the caller the client had written {} packets; expected the command and {} answers", sn.client_apdus, k + 1),
            );
        }
        if sn.delivered != boundary {
            return v("read-beyond-current-packet", format!("when item {k} was handed over the client had read {} bytes; reply {} ends at {boundary}", sn.delivered, k + 1));
        }
    }
    // after the final packet: None, None again, no I/O
    let last_log = run.snaps[n - 1].log_len;
    for k in n..n + 2 {
        match run.snaps.get(k) {
            Some(sn) if sn.item.is_none() => {
                if sn.log_len != last_log {
                    return v("io-after-final-packet", format!("polling after the final packet performed I/O ({} further peer events)", sn.log_len - last_log));
                }
            }
            other => return v("does-not-end-after-final-packet", format!("after the final packet the stream yielded {}", other.map(|s| show(&s.item)).unwrap_or("nothing".into()))),
        }
    }
    run.peer.with(|p| {
        if p.client_apdus.first() != Some(&cmd) {
            return v("wrong-command-bytes", format!("first packet written {} expected the command {}", p.client_apdus.first().map(|b| clip(&hex(b), 200)).unwrap_or("nothing".into()), clip(&hex(&cmd), 200)));
        }
        for (k, a) in p.client_apdus.iter().enumerate().skip(1) {
            if a[..] != ACK {
                return v("answer-is-not-an-ack", format!("answer {k} is {}", clip(&hex(a), 100)));
            }
        }
        if p.client_apdus.len() != n + 1 || !p.outbuf.is_empty() {
            return v("answered-more-than-once", format!("{} packets written in all (+{} stray bytes); expected the command and {n} acknowledgements", p.client_apdus.len(), p.outbuf.len()));
        }
        if p.log.iter().any(|e| matches!(e, Ev::ReadNoData)) {
            return v("read-before-answering", "the client polled for the next packet before answering the previous one (or after the final one)".into());
        }
        if p.unread() != &trailing[..] {
            return v("read-beyond-final-packet", format!("{} of the {} bytes queued behind the final packet were consumed", trailing.len() - p.unread().len().min(trailing.len()), trailing.len()));
        }
        Ok(())
    })
}

/// C06: a valid prefix, then one fault.
/// The connection is lost for writing: `w` complete packets of the client are accepted (w = 0: not even the command; w = j: the
/// command and the acknowledgements of replies 1..j-1), the next write fails with BrokenPipe. `c.replies` is a whole
/// well-formed script. Expected: the replies acknowledged before (in order), then exactly one error, then the end - and no
/// further write attempt.
pub fn check_write_fault(m: &Model, c: &SeqCase, w: usize) -> CheckResult {
    let f = Fault { pos: w, kind: "write-fails".into(), bytes: String::new() };
    let input = json!({"case": c, "fault": f});
    let Some(s) = m.seq(&c.seq) else { return Ok(()) };
    let replies: Vec<Vec<u8>> = c.replies.iter().map(|h| unhex(h)).collect();
    if w > replies.len() || replies.is_empty() {
        return Ok(());
    }
    for (k, r) in replies.iter().enumerate() {
        if m.expected_item(s, r).is_none() || (m.is_final(s, r[0], r[1]) != (k + 1 == replies.len())) {
            return Ok(());
        }
    }
    let mut script = vec![ACK.to_vec()];
    script.extend(replies.iter().cloned());
    let mut peer = Peer::scripted(script, vec![], c.chunks.clone());
    peer.fail_writes_after = Some(w);
    let cmd = unhex(&c.cmd);
    let run = guard(|| (s.run)(&cmd, peer, replies.len() + 4)).map_err(|p| Violation::new("fault", sig("C06", &c.seq, "panic"), p, input.clone()))?;
    if run.bad_command.is_some() {
        return Ok(());
    }
    let v = |kind: &str, detail: String| Err(Violation::new("fault", format!("C06 seq={} fault=write-fails kind={kind}", c.seq), detail, input.clone()));
    let show = |i: &Option<Result<String, String>>| match i {
        None => "None".to_string(),
        Some(Ok(d)) => format!("Ok({})", clip(d, 120)),
        Some(Err(e)) => format!("Err({})", clip(e, 120)),
    };
    let items: Vec<&Option<Result<String, String>>> = run.snaps.iter().map(|s| &s.item).collect();
    let listing = || items.iter().map(|i| show(i)).collect::<Vec<_>>().join(", ");
    let acked = w.saturating_sub(1); // replies whose acknowledgement was accepted
    for k in 0..acked {
        let want = m.expected_item(s, &replies[k]).unwrap();
        match items.get(k) {
            Some(Some(Ok(d))) if *d == want => {}
            _ => return v("wrong-item-before-fault", format!("write {w} fails; items [{}]; item {k} should be Ok({})", listing(), clip(&want, 120))),
        }
    }
    // the reply whose acknowledgement could not be written may or may not be handed over; then exactly one error
    let mut k = acked;
    if w >= 1 {
        if let Some(Some(Ok(d))) = items.get(k) {
            if *d == m.expected_item(s, &replies[acked]).unwrap() {
                k += 1;
            }
        }
    }
    match items.get(k) {
        Some(Some(Err(_))) => {}
        _ => return v("fault-not-reported", format!("the write of packet {w} of the client (0 = command, j = acknowledgement of reply j) failed with BrokenPipe; items [{}]: exactly one error is due after {acked} acknowledged replies", listing())),
    }
    for j in k + 1..k + 3 {
        match items.get(j) {
            Some(None) => {}
            _ => return v("more-than-one-item-after-fault", format!("items [{}]", listing())),
        }
    }
    let err_log = run.snaps[k].log_len;
    if run.snaps[k + 1..].iter().any(|s| s.log_len != err_log) {
        return v("io-after-error", "after reporting the error the stream performed I/O".into());
    }
    run.peer.with(|p| if p.failed_writes != 1 { v("wrote-after-fault", format!("{} write attempts were refused: after the first the client must not write again", p.failed_writes)) } else { Ok(()) })
}

pub fn check_fault(m: &Model, c: &SeqCase, f: &Fault) -> CheckResult {
    if f.kind == "write-fails" {
        return check_write_fault(m, c, f.pos);
    }
    let input = json!({"case": c, "fault": f});
    let Some(s) = m.seq(&c.seq) else { return Ok(()) };
    let replies: Vec<Vec<u8>> = c.replies.iter().map(|h| unhex(h)).collect();
    // replies before the fault: all non-final and well-formed
    let before = if f.pos == 0 { 0 } else { f.pos - 1 };
    if replies.len() < before {
        return Ok(());
    }
    for r in &replies[..before] {
        if m.expected_item(s, r).is_none() || m.is_final(s, r[0], r[1]) {
            return Ok(());
        }
    }
    let fb = unhex(&f.bytes);
    // soundness of the fault itself
    match f.kind.as_str() {
        "nack" => {
            if fb.len() != 3 || fb[0] != 0x84 {
                return Ok(());
            }
        }
        "foreign" => {
            if fb.len() < 3 {
                return Ok(());
            }
            let in_set = if f.pos == 0 { fb[0] == 0x80 && fb[1] == 0x00 } else { m.owned(s).iter().any(|(c, i, _, _)| *c == fb[0] && *i == fb[1]) };
            if in_set {
                return Ok(());
            }
        }
        "malformed" => {
            if f.pos == 0 || fb.len() < 3 {
                return Ok(());
            }
            let Some((_, _, _, ty)) = m.owned(s).iter().find(|(c, i, _, _)| *c == fb[0] && *i == fb[1]) else { return Ok(()) };
            // undecodable for the reference decoder and for the packet's own decoder
            if decode(&m.t, &m.t[*ty], &fb).is_ok() {
                return Ok(());
            }
            let te = m.tys.iter().find(|t| t.name == *ty).unwrap();
            if !matches!(guard(|| (te.quiet)(&fb)), Ok(Err(_))) {
                return Ok(());
            }
        }
        "unreadable-repeat" => {
            // a packet of the reply set the reference decoder rejects (what the packet's own decoder makes of a repeated
            // object cut short by its container is C13's business; here it is a packet that cannot be decoded)
            if f.pos == 0 || fb.len() < 3 {
                return Ok(());
            }
            let Some((_, _, _, ty)) = m.owned(s).iter().find(|(c, i, _, _)| *c == fb[0] && *i == fb[1]) else { return Ok(()) };
            if decode(&m.t, &m.t[*ty], &fb).is_ok() {
                return Ok(());
            }
        }
        "truncated" => {
            // header announces more than is delivered
            if fb.len() >= 3 {
                let (h, l) = if fb[2] == 0xff { if fb.len() < 5 { (5, 1) } else { (5, u16::from_le_bytes([fb[3], fb[4]]) as usize) } } else { (3, fb[2] as usize) };
                if fb.len() >= h + l {
                    return Ok(());
                }
            }
        }
        "eof" => {
            if !fb.is_empty() {
                return Ok(());
            }
        }
        k if k.starts_with("read-error:") => {
            // the bytes in front of the error must not be a complete packet
            if fb.len() >= 3 {
                let (h, l) = if fb[2] == 0xff { if fb.len() < 5 { (5, 1) } else { (5, u16::from_le_bytes([fb[3], fb[4]]) as usize) } } else { (3, fb[2] as usize) };
                if fb.len() >= h + l {
                    return Ok(());
                }
            }
        }
        _ => return Ok(()),
    }
    let end_error = match f.kind.strip_prefix("read-error:") {
        Some("reset") => Some(std::io::ErrorKind::ConnectionReset),
        Some("aborted") => Some(std::io::ErrorKind::ConnectionAborted),
        Some("pipe") => Some(std::io::ErrorKind::BrokenPipe),
        Some("timedout") => Some(std::io::ErrorKind::TimedOut),
        Some("other") => Some(std::io::ErrorKind::Other),
        Some(_) => return Ok(()),
        None => None,
    };
    let cmd = unhex(&c.cmd);
    let mut script: Vec<Vec<u8>> = vec![];
    if f.pos == 0 {
        script.push(fb.clone());
    } else {
        script.push(ACK.to_vec());
        script.extend(replies[..before].iter().cloned());
        script.push(fb.clone());
    }
    // a terminal that sent a complete but wrong packet carries on: a well-formed final reply is queued behind the fault,
    // so a client that mistakes the faulty packet for a good one is seen to continue (read, yield, acknowledge)
    if matches!(f.kind.as_str(), "nack" | "foreign" | "malformed") {
        let owned = m.owned(s);
        let cont = if owned.iter().any(|(c, i, _, t)| (*c, *i) == (0x06, 0x0f) && *t == "CompletionData") {
            vec![0x06, 0x0f, 0x00]
        } else if owned.iter().any(|(c, i, _, _)| (*c, *i) == (0x06, 0x1e)) {
            vec![0x06, 0x1e, 0x01, 0x6c]
        } else {
            vec![0x06, 0x0f, 0x00]
        };
        script.push(cont);
    }
    let mut peer = Peer::scripted(script, vec![], c.chunks.clone());
    peer.end_error = end_error;
    peer.write_limit = c.write_limit;
    let run = guard(|| (s.run)(&cmd, peer, before + 4)).map_err(|p| Violation::new("fault", sig("C06", &c.seq, "panic"), p, input.clone()))?;
    if run.bad_command.is_some() {
        return Ok(());
    }
    let v = |kind: &str, detail: String| Err(Violation::new("fault", format!("C06 seq={} fault={} kind={kind}", c.seq, f.kind), detail, input.clone()));
    let show = |i: &Option<Result<String, String>>| match i {
        None => "None".to_string(),
        Some(Ok(d)) => format!("Ok({})", clip(d, 160)),
        Some(Err(e)) => format!("Err({})", clip(e, 160)),
    };
    for k in 0..before {
        let want = m.expected_item(s, &replies[k]).unwrap();
        match run.snaps.get(k).map(|s| &s.item) {
            Some(Some(Ok(d))) if *d == want => {}
            other => return v("wrong-item-before-fault", format!("item {k}: {} expected Ok({})", other.map(show).unwrap_or("nothing".into()), clip(&want, 160))),
        }
    }
    match run.snaps.get(before).map(|s| &s.item) {
        Some(Some(Err(_))) => {}
        other => return v("fault-not-reported", format!("{} at position {} (bytes {}): the stream yielded {} where exactly one error is due", f.kind, f.pos, clip(&f.bytes, 80), other.map(show).unwrap_or("nothing".into()))),
    }
    let err_log = run.snaps[before].log_len;
    for k in before + 1..before + 3 {
        match run.snaps.get(k) {
            Some(sn) if sn.item.is_none() => {
                if sn.log_len != err_log {
                    return v("io-after-error", format!("after reporting the error the stream performed I/O ({} further peer events)", sn.log_len - err_log));
                }
            }
            other => return v("more-than-one-item-after-fault", format!("after the error the stream yielded {}", other.map(|s| show(&s.item)).unwrap_or("nothing".into()))),
        }
    }
    run.peer.with(|p| {
        let expect_apdus = f.pos.max(1);
        if p.client_apdus.len() != expect_apdus || !p.outbuf.is_empty() {
            let extra = p.client_apdus.get(expect_apdus).map(|b| hex(b)).unwrap_or_else(|| hex(&p.outbuf));
            return v("wrote-after-fault", format!("{} at position {}: the client wrote {} packets (+{} stray bytes) in all, expected {expect_apdus} (nothing after the faulty bytes were sent); extra: {}", f.kind, f.pos, p.client_apdus.len(), p.outbuf.len(), clip(&extra, 60)));
        }
        Ok(())
    })
}

pub fn replay_c05(check: &str, i: &Value) -> Option<CheckResult> {
    if check == "upload" {
        let _q = crate::props::c11::Quiet::new();
        return Some(crate::props::c11::check_upload(&crate::table(), &serde_json::from_value(i.clone()).ok()?).map_err(|mut v| {
            v.sig = v.sig.replacen("C11 ", "C05 seq=feig.WriteFile ", 1);
            v
        }));
    }
    Some(check_seq(&Model::new(), &serde_json::from_value(i.clone()).ok()?))
}
pub fn replay_c06(check: &str, i: &Value) -> Option<CheckResult> {
    if check == "upload-fault" {
        let _q = crate::props::c11::Quiet::new();
        let c: crate::props::c11::UploadCase = serde_json::from_value(i.get("case")?.clone()).ok()?;
        return Some(crate::props::c11::check_upload_fault(&crate::table(), &c, i.get("pos")?.as_u64()? as usize, i.get("kind")?.as_str()?, &unhex(i.get("fault")?.as_str()?)));
    }
    Some(check_fault(&Model::new(), &serde_json::from_value(i.get("case")?.clone()).ok()?, &serde_json::from_value(i.get("fault")?.clone()).ok()?))
}

/// Pools of canonical encodings per packet type, built deterministically from the seed.
pub struct Pools {
    pub by_type: std::collections::BTreeMap<String, Vec<Vec<u8>>>,
    /// per type: packets with a repeated object cut short by the end of its container (c13::damaged_packets)
    pub damaged: std::collections::BTreeMap<String, Vec<Vec<u8>>>,
}
impl Pools {
    pub fn build(ctx: &Ctx, m: &Model, n: usize, cfg: GenCfg) -> Self {
        let mut names: Vec<&str> = vec![];
        for s in &m.seqs {
            names.push(s.cmd);
            for (_, _, _, ty) in m.owned(s) {
                names.push(ty);
            }
        }
        names.sort();
        names.dedup();
        let mut by_type = std::collections::BTreeMap::new();
        let mut damaged = std::collections::BTreeMap::new();
        for name in names {
            let l = &m.t[name];
            if l.ctrl.is_some() {
                let mut d: Vec<Vec<u8>> = ctx.sample_values(ctx.seed_for("pool-damaged", fnv_str(name)), n.min(40), &strategy_for(&m.t, name, cfg)).into_iter().filter(|v| is_canonical(&m.t, l, v)).flat_map(|v| crate::props::c13::damaged_packets(&m.t, name, &v)).collect();
                d.sort_by_key(|b| b.len());
                d.dedup();
                d.truncate(64);
                damaged.insert(name.to_string(), d);
            }
            let mut v: Vec<Vec<u8>> = ctx.sample_values(ctx.seed_for("pool", fnv_str(name)), n, &strategy_for(&m.t, name, cfg)).into_iter().filter(|v| is_canonical(&m.t, l, v)).map(|v| encode(&m.t, l, &v).unwrap()).collect();
            // packets with an extended-length header (body >= 255 bytes), where the layout has a field that can grow
            for (k, target) in [255usize, 256, 300, 700, 4000].iter().enumerate() {
                if let Some(base) = ctx.sample_values(ctx.seed_for("pool-long", fnv_str(name) ^ k as u64), 1, &strategy_for(&m.t, name, cfg)).into_iter().next() {
                    if let Some(p) = pump(&m.t, l, &base, *target) {
                        if is_canonical(&m.t, l, &p) && l.ctrl.is_some() {
                            v.push(encode(&m.t, l, &p).unwrap());
                        }
                    }
                }
            }
            // representative first: the smallest non-degenerate encoding
            v.sort_by_key(|b| (b.len() < 4, b.len()));
            v.dedup();
            by_type.insert(name.to_string(), v);
        }
        Pools { by_type, damaged }
    }
    pub fn pick(&self, ty: &str, sel: u16) -> &Vec<u8> {
        let p = &self.by_type[ty];
        &p[(sel as usize * p.len()) >> 16]
    }
}

pub const CHUNKINGS: [&[usize]; 4] = [&[], &[1], &[2, 3], &[1, 7, 2]];

/// all scripts (as lists of owned-variant indices) non-final* . final of length <= max
fn scripts(m: &Model, s: &SeqEntry, max: usize) -> Vec<Vec<usize>> {
    let owned = m.owned(s);
    let fin: Vec<usize> = (0..owned.len()).filter(|k| m.is_final(s, owned[*k].0, owned[*k].1)).collect();
    let non: Vec<usize> = (0..owned.len()).filter(|k| !m.is_final(s, owned[*k].0, owned[*k].1)).collect();
    let mut out = vec![];
    let mut prefixes: Vec<Vec<usize>> = vec![vec![]];
    for _len in 1..=max {
        for p in &prefixes {
            for f in &fin {
                let mut sc = p.clone();
                sc.push(*f);
                out.push(sc);
            }
        }
        if non.is_empty() {
            break;
        }
        let mut next = vec![];
        for p in &prefixes {
            for k in &non {
                let mut q = p.clone();
                q.push(*k);
                next.push(q);
            }
        }
        prefixes = next;
    }
    out
}

pub fn run_c05(tier: Tier) -> i32 {
    let ctx = Ctx::new("C05", "exploration", tier);
    let mut stats = Stats::new();
    stats.sample_cap = 8;
    crate::run_regressions(&ctx, &mut stats, replay_c05);
    let m = Model::new();
    let pools = Pools::build(&ctx, &m, tier.pick(40, 400), GenCfg { vec_max: 3, text_max: 60, blob_max: 60 });
    // bounded-exhaustive: all scripts up to depth 5 (quick: 4), representative bodies, 4 chunk schedules, with trailing bytes
    let depth = tier.pick(5, 6);
    let s = ctx.shards("exhaustive", m.seqs.len() as u64, |i, _seed, st| {
        let s = &m.seqs[i as usize];
        let owned = m.owned(s);
        let cmd = hex(pools.pick(s.cmd, 0));
        for (k, sc) in scripts(&m, s, depth).into_iter().enumerate() {
            let replies: Vec<String> = sc.iter().map(|v| hex(pools.pick(owned[*v].3, ((k * 977) % 65536) as u16 / 8))).collect();
            let trailing: Vec<u8> = if k % 3 == 0 { vec![] } else { (0..(k % 64)).map(|x| (x * 37 + k) as u8).collect() };
            // short scripts with every form of the positive acknowledgement, longer ones with a rotating one
            let ack = if sc.len() <= 2 { None } else { Some(ACKS[k % ACKS.len()].to_string()).filter(|a| a != "800000") };
            let c = SeqCase { seq: s.name.to_string(), cmd: cmd.clone(), replies, trailing: hex(&trailing), chunks: CHUNKINGS[k % 4].to_vec(), ack, write_limit: if k % 5 == 3 { Some([1usize, 2, 3, 5][k / 5 % 4]) } else { None } };
            if sc.len() <= 2 {
                for a in &ACKS[1..] {
                    let c2 = SeqCase { ack: Some(a.to_string()), ..c.clone() };
                    st.case(true, fnv(&serde_json::to_vec(&c2).unwrap()));
                    st.class("acknowledgement-with-data-block-or-extended-length");
                    ctx.record(check_seq(&m, &c2), st);
                }
            } else if c.ack.is_some() {
                st.class("acknowledgement-with-data-block-or-extended-length");
            }
            if c.write_limit.is_some() {
                st.class("exhaustive:short-writes");
            }
            st.case(sc.len() >= 2 && !trailing.is_empty(), fnv(&serde_json::to_vec(&c).unwrap()));
            st.class(&format!("exhaustive:len={}", sc.len()));
            if k == 7 {
                st.sample(|| json!({"seq": s.name, "script": sc.iter().map(|v| owned[*v].2).collect::<Vec<_>>(), "trailing_bytes": trailing.len(), "chunks": c.chunks}));
            }
            ctx.record(check_seq(&m, &c), st);
        }
    });
    stats.merge(s);
    // random scripts up to length 40 with random canonical bodies
    let nrand: u32 = tier.pick(200_000, 2_000_000);
    let s = ctx.shards("random", 32, |_i, seed, st| {
        let strat = (
            any::<u16>(),
            any::<u16>(),
            prop_oneof![3 => proptest::collection::vec((any::<u16>(), any::<u16>()), 0..6), 1 => proptest::collection::vec((any::<u16>(), any::<u16>()), 0..40)],
            (any::<u16>(), any::<u16>()),
            proptest::collection::vec(any::<u8>(), 0..=64),
            prop_oneof![Just(vec![]), Just(vec![1usize]), proptest::collection::vec(1usize..12, 1..6)],
        );
        ctx.proptest(seed, nrand / 32, &strat, st, |(ssel, csel, body, fin, trailing, chunks), st| {
            let s = &m.seqs[(*ssel as usize * m.seqs.len()) >> 16];
            let owned = m.owned(s);
            let finals: Vec<usize> = (0..owned.len()).filter(|k| m.is_final(s, owned[*k].0, owned[*k].1)).collect();
            let non: Vec<usize> = (0..owned.len()).filter(|k| !m.is_final(s, owned[*k].0, owned[*k].1)).collect();
            let mut replies = vec![];
            if !non.is_empty() {
                for (v, b) in body {
                    let k = non[(*v as usize * non.len()) >> 16];
                    replies.push(hex(pools.pick(owned[k].3, *b)));
                }
            }
            let k = finals[(fin.0 as usize * finals.len()) >> 16];
            replies.push(hex(pools.pick(owned[k].3, fin.1)));
            let wl = match (*csel as usize + body.len()) % 8 {
                0 => Some(1usize),
                1 => Some(3),
                2 => Some(7),
                _ => None,
            };
            let c = SeqCase { seq: s.name.to_string(), cmd: hex(pools.pick(s.cmd, *csel)), replies, trailing: hex(trailing), chunks: chunks.clone(), ack: None, write_limit: wl };
            if wl.is_some() {
                st.class("random:short-writes");
            }
            st.case(c.replies.len() >= 2 && !trailing.is_empty(), fnv(&serde_json::to_vec(&c).unwrap()));
            st.class(if c.replies.len() > 6 { "random:len>6" } else { "random:len<=6" });
            if c.replies.iter().any(|r| r.len() >= 6 && &r[4..6] == "ff") {
                st.class("random:extended-length-reply");
                if chunks.iter().any(|k| *k == 1) {
                    st.class("random:extended-length-reply-bytewise");
                }
            }
            check_seq(&m, &c)
        });
    });
    stats.merge(s);
    // the firmware upload stream: every data request answered exactly once with the requested block (the C11 oracle, reported here
    // as C05 because "answers ... with the requested data block during a firmware upload" is part of this property's statement)
    {
        use crate::props::c11::{check_upload, present_of, upload_case_strategy, Quiet};
        let _q = Quiet::new();
        let t = crate::table();
        let nup: u32 = tier.pick(2_400, 40_000);
        let s = ctx.shards("upload", 16, |_i, seed, st| {
            let strat = upload_case_strategy(20 << 10);
            ctx.proptest(seed, nup / 16, &strat, st, |c, st| {
                let present = present_of(&c.files);
                let ids: std::collections::BTreeSet<u8> = present.iter().map(|p| p.0).collect();
                // a request entitled to a longer block than an earlier (short) one
                let mut shortest = c.block as usize;
                let mut longer_after_short = false;
                for r in &c.requests {
                    if !r.malformed.is_empty() {
                        break;
                    }
                    let Some((_, size)) = present.iter().find(|(id, _)| *id == r.id) else { break };
                    let due = size.saturating_sub(r.offset as usize).min(c.block as usize);
                    if due > shortest {
                        longer_after_short = true;
                    }
                    shortest = shortest.min(due);
                }
                st.case(ids.len() >= 2 && longer_after_short, fnv(&serde_json::to_vec(c).unwrap()));
                st.class("upload:case");
                if longer_after_short {
                    st.class("upload:longer-block-due-after-a-short-one");
                }
                check_upload(&t, c).map_err(|mut v| {
                    v.sig = v.sig.replacen("C11 ", "C05 seq=feig.WriteFile ", 1);
                    v
                })
            });
        });
        stats.merge(s);
    }
    stats.exhaustive_parts = vec![format!("17 sequences x every well-formed reply script (non-final* . final) of length <= {depth} over the command's reply alphabet")];
    ctx.finish(
        stats,
        "17 Sequence impls x reply scripts over each command's reply alphabet (Appendix B): all scripts up to the stated depth with representative canonical bodies, then proptest scripts up to length 40 with random canonical bodies, each x 0..64 bytes queued behind the final packet x a chunk schedule x the form of the terminal's positive acknowledgement (80 00 00, with a data block, extended length form) x the write side (whole buffers, or a connection that accepts 1 / 2 / 3 / 5 / 7 bytes per write). Oracle: the peer's event log equals the trace computed by the reference model (command once and byte-identical, each reply answered by exactly one 80 00 00 before it is handed over and before the next is read, items = the replies' own decode in order, None twice after the first final packet without I/O, trailing bytes unread). The firmware upload stream (data request answered by WriteData) is driven with the C11 generator (payload directories x block sizes x request scripts) and the C11 oracle: each good request answered exactly once with id, offset and file[offset..min(offset+block,size)], completion/abort acknowledged, trailing bytes unread. non-trivial = >= 1 intermediate packet before the final one and trailing bytes present (upload: >= 2 files and a request entitled to a longer block than an earlier short one); distinct by (sequence, command, script bytes, trailing, schedule)",
        &["the scripted peer releases reply i+1 only when the client has answered reply i; a poll for data while nothing is released is logged and is itself a violation", "replies are canonical packets of the variant types (table-driven)"],
        false,
    )
}

/// faults for position `pos` of sequence `s`
fn faults_at(m: &Model, s: &SeqEntry, pools: &Pools, pos: usize, salt: usize) -> Vec<Fault> {
    let mut out = vec![];
    for xx in [0x00u8, 0x83, 0x9a, 0xff] {
        out.push(Fault { pos, kind: "nack".into(), bytes: hex(&[0x84, xx, 0x00]) });
    }
    // foreign control fields: a well-formed packet outside the reply set
    let foreign: Vec<Vec<u8>> = vec![vec![0x04, 0x01, 0x00], vec![0x06, 0xd8, 0x00], vec![0x05, 0x01, 0x03, 0x12, 0x34, 0x56], vec![0x06, 0x0f, 0x00], vec![0x04, 0xff, 0x01, 0x0a], vec![0x80, 0x00, 0x00], vec![0x06, 0x1e, 0x01, 0x6c]];
    let mut foreign = foreign;
    // near misses of the expected control fields
    let expected: Vec<(u8, u8)> = if pos == 0 { vec![(0x80, 0x00)] } else { m.owned(s).iter().map(|(c, i, _, _)| (*c, *i)).collect() };
    for (c, i) in &expected {
        for (dc, di) in [(0u8, 1u8), (0, 0x80), (1, 0), (0x80, 0), (0, 0xff)] {
            foreign.push(vec![c ^ dc, i ^ di, 0x00]);
        }
        if c != i {
            foreign.push(vec![*i, *c, 0x00]);
        }
    }
    for fb in foreign {
        if fb[0] == 0x84 {
            continue;
        }
        let in_set = if pos == 0 { fb[0] == 0x80 && fb[1] == 0 } else { m.owned(s).iter().any(|(c, i, _, _)| *c == fb[0] && *i == fb[1]) };
        if !in_set {
            out.push(Fault { pos, kind: "foreign".into(), bytes: hex(&fb) });
        }
    }
    if pos > 0 {
        // malformed bodies: control field in the reply set, body cut / mandatory byte missing / TLV cut
        for (k, (c, i, _, ty)) in m.owned(s).iter().enumerate() {
            let full = pools.pick(ty, ((salt * 131 + k * 17) % 65536) as u16);
            let body = &full[if full[2] == 0xff { 5 } else { 3 }..];
            let mut cands: Vec<Vec<u8>> = vec![];
            if !body.is_empty() {
                cands.push(body[..body.len() - 1].to_vec());
                cands.push(body[..body.len() / 2].to_vec());
            }
            cands.push(vec![]);
            cands.push(vec![0x06, 0x82]);
            cands.push(vec![0x27]);
            for b in cands {
                if let Ok(p) = apdu(*c, *i, &b) {
                    out.push(Fault { pos, kind: "malformed".into(), bytes: hex(&p) });
                }
            }
        }
    }
    // a well-framed packet of the reply set in which a repeated object is cut short by the end of its container
    if pos > 0 {
        for (k, (_, _, _, ty)) in m.owned(s).iter().enumerate() {
            if let Some(d) = pools.damaged.get(*ty).filter(|d| !d.is_empty()) {
                for j in 0..2 {
                    out.push(Fault { pos, kind: "unreadable-repeat".into(), bytes: hex(&d[(salt * 31 + k * 7 + j * 13) % d.len()]) });
                }
            }
        }
    }
    // truncated packets, then the connection ends
    let some = if pos == 0 { ACK.to_vec() } else { pools.pick(m.owned(s)[salt % m.owned(s).len()].3, (salt * 7919 % 65536) as u16).clone() };
    out.push(Fault { pos, kind: "truncated".into(), bytes: hex(&some[..1]) });
    out.push(Fault { pos, kind: "truncated".into(), bytes: hex(&some[..2]) });
    if some.len() > 3 {
        out.push(Fault { pos, kind: "truncated".into(), bytes: hex(&some[..some.len() - 1]) });
        out.push(Fault { pos, kind: "truncated".into(), bytes: hex(&some[..3]) });
    } else {
        out.push(Fault { pos, kind: "truncated".into(), bytes: hex(&[some[0], some[1], 0x05, 0x01]) });
    }
    out.push(Fault { pos, kind: "truncated".into(), bytes: hex(&[some[0], some[1], 0xff, 0x10]) });
    // an extended-length packet (5-byte header, body >= 255) cut inside its body
    if pos > 0 {
        let long = m.owned(s).iter().filter_map(|(_, _, _, ty)| pools.by_type[*ty].iter().find(|p| p.len() > 260)).nth(salt % 2).or(m.owned(s).iter().filter_map(|(_, _, _, ty)| pools.by_type[*ty].iter().find(|p| p.len() > 260)).next());
        if let Some(p) = long {
            for cut in [5usize, 6, p.len() / 2, p.len() - 1] {
                out.push(Fault { pos, kind: "truncated".into(), bytes: hex(&p[..cut]) });
            }
        }
    }
    out.push(Fault { pos, kind: "eof".into(), bytes: String::new() });
    // the connection does not end, it breaks: the read fails with an error of some kind, at a packet boundary or inside a packet
    for kind in ["reset", "aborted", "pipe", "timedout", "other"] {
        out.push(Fault { pos, kind: format!("read-error:{kind}"), bytes: String::new() });
        let partial: Vec<u8> = if pos == 0 { vec![0x80, 0x00] } else { let o = &m.owned(s)[salt % m.owned(s).len()]; vec![o.0, o.1, 0x05, 0x01] };
        out.push(Fault { pos, kind: format!("read-error:{kind}"), bytes: hex(&partial) });
    }
    out
}

pub fn run_c06(tier: Tier) -> i32 {
    let ctx = Ctx::new("C06", "fault_enumeration", tier);
    let mut stats = Stats::new();
    stats.sample_cap = 8;
    crate::run_regressions(&ctx, &mut stats, replay_c06);
    let m = Model::new();
    let pools = Pools::build(&ctx, &m, tier.pick(40, 400), GenCfg { vec_max: 3, text_max: 60, blob_max: 60 });
    let depth = tier.pick(4, 5);
    // every valid prefix (length <= depth) x every fault kind x every position
    let s = ctx.shards("exhaustive", m.seqs.len() as u64, |i, _seed, st| {
        let s = &m.seqs[i as usize];
        let owned = m.owned(s);
        let non: Vec<usize> = (0..owned.len()).filter(|k| !m.is_final(s, owned[*k].0, owned[*k].1)).collect();
        let cmd = hex(pools.pick(s.cmd, 0));
        // prefixes of non-final replies
        let mut prefixes: Vec<Vec<usize>> = vec![vec![]];
        let mut all = vec![vec![]];
        for _ in 0..depth {
            let mut next = vec![];
            for p in &prefixes {
                for k in &non {
                    let mut q = p.clone();
                    q.push(*k);
                    next.push(q);
                }
            }
            all.extend(next.iter().cloned());
            prefixes = next;
            if non.is_empty() {
                break;
            }
        }
        for (pi, pre) in all.iter().enumerate() {
            let replies: Vec<String> = pre.iter().enumerate().map(|(j, v)| hex(pools.pick(owned[*v].3, ((pi * 31 + j * 7) % 4096) as u16 * 16))).collect();
            // the fault replaces the packet right after the prefix; for the empty prefix also the ack position
            let positions: Vec<usize> = if pre.is_empty() { vec![0, 1] } else { vec![pre.len() + 1] };
            for pos in positions {
                for (fi, f) in faults_at(&m, s, &pools, pos, pi).into_iter().enumerate() {
                    let c = SeqCase { seq: s.name.to_string(), cmd: cmd.clone(), replies: replies.clone(), trailing: String::new(), chunks: CHUNKINGS[(pi + fi) % 4].to_vec(), ack: None, write_limit: None };
                    st.case(pos >= 2, fnv(&serde_json::to_vec(&(&c, &f)).unwrap()));
                    st.class(&format!("{}@{}", f.kind, if pos == 0 { "ack" } else if pos == 1 { "first-reply" } else { "later-reply" }));
                    if pi == 3 && fi == 5 {
                        st.sample(|| json!({"seq": s.name, "prefix": pre.iter().map(|v| owned[*v].2).collect::<Vec<_>>(), "fault": f}));
                    }
                    ctx.record(check_fault(&m, &c, &f), st);
                }
            }
        }
    });
    stats.merge(s);
    // the connection is lost for writing: every whole script (prefix of <= 2 non-final replies + each final reply) x every
    // write of the client (the command, each acknowledgement incl. the one of the final packet)
    let s = ctx.shards("write-faults", m.seqs.len() as u64, |i, _seed, st| {
        let s = &m.seqs[i as usize];
        let owned = m.owned(s);
        let non: Vec<usize> = (0..owned.len()).filter(|k| !m.is_final(s, owned[*k].0, owned[*k].1)).collect();
        let fin: Vec<usize> = (0..owned.len()).filter(|k| m.is_final(s, owned[*k].0, owned[*k].1)).collect();
        let cmd = hex(pools.pick(s.cmd, 0));
        let mut pres: Vec<Vec<usize>> = vec![vec![]];
        for a in &non {
            pres.push(vec![*a]);
            for b in &non {
                pres.push(vec![*a, *b]);
            }
        }
        for (pi, pre) in pres.iter().enumerate() {
            for (fi, f) in fin.iter().enumerate() {
                let mut script = pre.clone();
                script.push(*f);
                let replies: Vec<String> = script.iter().enumerate().map(|(j, v)| hex(pools.pick(owned[*v].3, ((pi * 13 + fi * 5 + j * 7) % 4096) as u16 * 16))).collect();
                let c = SeqCase { seq: s.name.to_string(), cmd: cmd.clone(), replies: replies.clone(), trailing: String::new(), chunks: CHUNKINGS[(pi + fi) % 4].to_vec(), ack: None, write_limit: None };
                for w in 0..=replies.len() {
                    st.case(w >= 2, fnv(&serde_json::to_vec(&(&c, w, "write")).unwrap()));
                    st.class(if w == 0 { "write-fails@command" } else if w == replies.len() { "write-fails@ack-of-final-packet" } else { "write-fails@ack-of-intermediate-packet" });
                    ctx.record(check_write_fault(&m, &c, w), st);
                }
            }
        }
    });
    stats.merge(s);
    // control-field sweep: at the acknowledgement position and instead of the first reply, every one of the 65 536
    // (class, instr) pairs outside the expected set (near misses such as 80 01 included) must be reported as an error
    let s = ctx.shards("control-field-sweep", m.seqs.len() as u64 * 2, |i, _seed, st| {
        let s = &m.seqs[(i / 2) as usize];
        let pos = (i % 2) as usize;
        let cmd = hex(pools.pick(s.cmd, 0));
        let (mut n, mut bad) = (0u64, 0u32);
        for class in 0..=255u8 {
            for instr in 0..=255u8 {
                let in_set = if pos == 0 { class == 0x80 && instr == 0x00 } else { m.owned(s).iter().any(|(c, k, _, _)| *c == class && *k == instr) };
                if in_set || class == 0x84 {
                    continue;
                }
                let f = Fault { pos, kind: "foreign".into(), bytes: hex(&[class, instr, 0x00]) };
                let c = SeqCase { seq: s.name.to_string(), cmd: cmd.clone(), replies: vec![], trailing: String::new(), chunks: vec![], ack: None, write_limit: None };
                n += 1;
                let r = check_fault(&m, &c, &f);
                if r.is_err() && bad < 3 {
                    bad += 1;
                    ctx.record(r, st);
                }
            }
        }
        st.enumerated(n, 0);
        st.class_n(if pos == 0 { "control-field-sweep@ack" } else { "control-field-sweep@first-reply" }, n);
    });
    stats.merge(s);
    // the firmware upload stream: good data requests, then one fault
    {
        use crate::props::c11::{check_upload_fault, FileSpec, Quiet, Req, UploadCase, RECOGNISED};
        let _q = Quiet::new();
        let t = crate::table();
        let s = ctx.shards("upload", 8, |i, _seed, st| {
            let files = vec![FileSpec { which: (i as usize * 3) % 21, size: 700 + i as usize * 91, seed: i as u8, symlink: false }, FileSpec { which: (i as usize * 3 + 7) % 21, size: 3000, seed: 9, symlink: i % 3 == 2 }];
            let ids: Vec<u8> = files.iter().map(|f| RECOGNISED[f.which].1).collect();
            for nreq in 0..4usize {
                let requests: Vec<Req> = (0..nreq).map(|k| Req { id: ids[k % 2], offset: (k * 256) as u32, malformed: String::new() }).collect();
                let c = UploadCase { files: files.clone(), block: 256, password: 123456, requests, ending: "completion".into(), chunks: CHUNKINGS[(i as usize + nreq) % 4].to_vec(), write_limit: None };
                let positions: Vec<usize> = if nreq == 0 { vec![0, 1] } else { vec![nreq + 1] };
                for pos in positions {
                    let mut faults: Vec<(&str, Vec<u8>)> = vec![("nack", vec![0x84, 0x9a, 0x00]), ("nack", vec![0x84, 0x00, 0x00]), ("eof", vec![]), ("truncated", vec![0x04]), ("truncated", vec![0x04, 0x0c, 0x09, 0x06]), ("truncated", vec![0x06, 0x0f, 0xff, 0x10])];
                    for fb in [[0x04u8, 0xff, 0x00], [0x06, 0xd1, 0x00], [0x04, 0x0d, 0x00], [0x05, 0x0c, 0x00], [0x80, 0x01, 0x00], [0x06, 0x1f, 0x00], [0x04, 0x0f, 0x00]] {
                        faults.push(("foreign", fb.to_vec()));
                    }
                    if pos == 0 {
                        faults.push(("foreign", vec![0x06, 0x0f, 0x00]));
                        faults.push(("foreign", vec![0x04, 0x0c, 0x00]));
                    } else {
                        // data requests whose body cannot be decoded
                        faults.push(("malformed", vec![0x04, 0x0c, 0x02, 0x06, 0x82]));
                        faults.push(("malformed", vec![0x04, 0x0c, 0x05, 0x06, 0x03, 0x2d, 0x05, 0x1d]));
                    }
                    if pos >= 1 {
                        // well-formed data requests for files that were not announced: ids below, between and above the
                        // announced ones (recognised ids that are absent, and ids no file has)
                        let t2 = crate::table();
                        for id in [0x00u8, 0x0f, 0x10, 0x11, 0x12, 0x13, 0x14, 0x15, 0x1a, 0x1f, 0x20, 0x21, 0x22, 0x27, 0x2a, 0x30, 0x33, 0x35, 0x36, 0x99, 0xff] {
                            if ids.contains(&id) {
                                continue;
                            }
                            for off in [0u32, 300] {
                                faults.push(("unannounced-id", crate::props::c11::request_bytes(&t2, &Req { id, offset: off, malformed: String::new() })));
                            }
                        }
                    }
                    for (kind, fb) in faults {
                        st.case(pos >= 2, fnv(&serde_json::to_vec(&(&c, pos, kind, &fb)).unwrap()));
                        st.class(&format!("upload:{kind}@{}", if pos == 0 { "ack" } else { "request" }));
                        ctx.record(check_upload_fault(&t, &c, pos, kind, &fb), st);
                    }
                }
            }
        });
        stats.merge(s);
    }
    // random prefixes / bodies / fault bytes
    let nrand: u32 = tier.pick(150_000, 1_000_000);
    let s = ctx.shards("random", 32, |_i, seed, st| {
        let strat = (
            any::<u16>(),
            any::<u16>(),
            proptest::collection::vec((any::<u16>(), any::<u16>()), 0..8),
            any::<u16>(),
            any::<u16>(),
            prop_oneof![Just(vec![]), Just(vec![1usize]), proptest::collection::vec(1usize..12, 1..6)],
            any::<bool>(),
        );
        ctx.proptest(seed, nrand / 32, &strat, st, |(ssel, csel, body, fsel, salt, chunks, at_ack), st| {
            let s = &m.seqs[(*ssel as usize * m.seqs.len()) >> 16];
            let owned = m.owned(s);
            let non: Vec<usize> = (0..owned.len()).filter(|k| !m.is_final(s, owned[*k].0, owned[*k].1)).collect();
            let mut replies = vec![];
            if !non.is_empty() {
                for (v, b) in body {
                    replies.push(hex(pools.pick(owned[non[(*v as usize * non.len()) >> 16]].3, *b)));
                }
            }
            let pos = if *at_ack && replies.is_empty() { 0 } else { replies.len() + 1 };
            let fs = faults_at(&m, s, &pools, pos, *salt as usize);
            let f = fs[(*fsel as usize * fs.len()) >> 16].clone();
            let c = SeqCase { seq: s.name.to_string(), cmd: hex(pools.pick(s.cmd, *csel)), replies, trailing: String::new(), chunks: chunks.clone(), ack: None, write_limit: None };
            st.case(pos >= 2, fnv(&serde_json::to_vec(&(&c, &f)).unwrap()));
            st.class(&format!("random:{}", f.kind));
            check_fault(&m, &c, &f)
        });
    });
    stats.merge(s);
    stats.exhaustive_parts = vec![format!("17 sequences x every valid reply-script prefix of length <= {depth} x every fault (4 NACK codes, foreign control fields incl. near misses of the expected ones, malformed bodies per reply kind, repeated objects cut short by their container, 5 truncations, EOF) at the position behind the prefix (and at the ack position)"), "17 sequences x all 65 536 control fields outside the expected set, at the acknowledgement position and instead of the first reply".into()];
    ctx.finish(
        stats,
        "17 Sequence impls (and the firmware upload stream with 0..3 good data requests) x valid script prefixes x one fault {NACK 84 xx, packet outside the reply set, undecodable body inside the reply set (cut / missing / broken TLV, or a repeated object cut short by the end of its container), truncated packet + end of stream, end of stream} at the acknowledgement position or instead of reply j, a read error (connection reset / aborted / broken pipe / timed out / other) at a packet boundary or inside a packet, and the connection lost for writing (BrokenPipe) at the command and at every acknowledgement incl. the one of the final packet; exhaustive over prefixes up to the stated depth, then proptest prefixes up to 8 replies with random bodies. Oracle: Ok items for the replies before the fault, exactly one Err, then None twice without I/O, and no byte written once the faulty bytes were released. non-trivial = fault behind at least one acknowledged reply (position >= 2); distinct by (sequence, prefix bytes, fault)",
        &["'malformed' bodies are used only when both the reference decoder and the packet's own decoder reject them", "for the upload stream the faults - among them well-formed requests for ids that were not announced, below / between / above the announced ones - are placed behind 0..3 answered data requests (props/c11.rs check_upload_fault)"],
        false,
    )
}
