//! C09 — a connection that saw a failure is never reused; fresh ones are vetted.
use crate::engine::*;
use crate::props::c10::{base_scenario, dry_run, OPS};
use crate::refc::*;
use crate::scenario::*;
use crate::sim::*;
use proptest::prelude::*;
use serde_json::{json, Value};
use std::collections::BTreeMap;

const P: &str = "C09";

#[derive(Default, Debug)]
struct ConnView {
    /// (clog index at which the APDU was complete, time, bytes)
    apdus: Vec<(usize, f64, Vec<u8>)>,
    partial: Vec<u8>,
    /// (clog index, time, cumulative bytes read after this event)
    reads: Vec<(usize, f64, usize)>,
    writes: Vec<(usize, f64)>,
    eof: Option<usize>,
    drop: Option<usize>,
    open: Option<usize>,
}

fn split_apdu(buf: &mut Vec<u8>) -> Option<Vec<u8>> {
    if buf.len() < 3 {
        return None;
    }
    let (h, l) = if buf[2] == 0xff {
        if buf.len() < 5 {
            return None;
        }
        (5, u16::from_le_bytes([buf[3], buf[4]]) as usize)
    } else {
        (3, buf[2] as usize)
    };
    if buf.len() < h + l {
        return None;
    }
    Some(buf.drain(..h + l).collect())
}

fn views(clog: &[CEv]) -> BTreeMap<usize, ConnView> {
    let mut m: BTreeMap<usize, ConnView> = BTreeMap::new();
    for (i, e) in clog.iter().enumerate() {
        match e {
            CEv::Open { conn, .. } => m.entry(*conn).or_default().open = Some(i),
            CEv::Write { conn, t, bytes } => {
                let v = m.entry(*conn).or_default();
                v.writes.push((i, *t));
                v.partial.extend_from_slice(bytes);
                while let Some(a) = split_apdu(&mut v.partial) {
                    v.apdus.push((i, *t, a));
                }
            }
            CEv::Read { conn, t, bytes } => {
                let v = m.entry(*conn).or_default();
                let total = v.reads.last().map(|r| r.2).unwrap_or(0) + bytes.len();
                v.reads.push((i, *t, total));
            }
            CEv::ReadEof { conn, .. } => {
                let v = m.entry(*conn).or_default();
                if v.eof.is_none() {
                    v.eof = Some(i);
                }
            }
            CEv::Drop { conn, .. } => m.entry(*conn).or_default().drop = Some(i),
            CEv::ConnectAttempt { .. } => {}
        }
    }
    m
}

/// I1–I4 over the client-side per-connection log of a finished scenario.
pub fn check_invariants(sc: &Scenario, tr: &Trace) -> CheckResult {
    let input = serde_json::to_value(sc).unwrap();
    let v = |inv: &str, kind: &str, detail: String| Err(Violation::new("conn", format!("C09 inv={inv} kind={kind}"), detail, input.clone()));
    let t = crate::table();
    let clog = tr.world.clog.lock().unwrap().clone();
    let slog = tr.world.sim.lock().unwrap().log.clone();
    let vs = views(&clog);
    let serial = sc.cfg.serial.to_lowercase();
    // terminal-side facts per connection
    let mut faults: BTreeMap<usize, (f64, FaultKind, usize)> = BTreeMap::new(); // conn -> (t, kind, bytes sent before)
    let mut wrong_serial: BTreeMap<usize, usize> = BTreeMap::new(); // conn -> bytes sent up to and including the wrong-serial reply
    let mut sent: BTreeMap<usize, usize> = BTreeMap::new();
    let mut sysinfo_seen: BTreeMap<usize, usize> = BTreeMap::new();
    let mut last_rx_kind: BTreeMap<usize, Kind> = BTreeMap::new();
    let mut refused: std::collections::BTreeSet<usize> = Default::default(); // connections on which the terminal sent an abort / a NACK
    for e in &slog {
        match e {
            SEv::Rx { conn, kind, .. } => {
                last_rx_kind.insert(*conn, *kind);
                if *kind == Kind::SystemInfo {
                    *sysinfo_seen.entry(*conn).or_insert(0) += 1;
                }
            }
            SEv::Tx { conn, apdu, .. } => {
                *sent.entry(*conn).or_insert(0) += apdu.len();
                if apdu.len() >= 2 && ((apdu[0] == 0x06 && apdu[1] == 0x1e) || apdu[0] == 0x84) {
                    refused.insert(*conn);
                }
                if apdu.len() > 3 && apdu[0] == 0x06 && apdu[1] == 0x0f && last_rx_kind.get(conn) == Some(&Kind::SystemInfo) && sysinfo_seen.get(conn) == Some(&1) {
                    if let Ok((val, _)) = decode(&t, &t["feig.CVendFunctionsEnhancedSystemInformationCompletion"], apdu) {
                        if get_s(&val, "device_id").map(|s| s.to_lowercase()) != Some(serial.clone()) {
                            wrong_serial.insert(*conn, sent[conn]);
                        }
                    }
                }
            }
            SEv::Fault { conn, t, kind, .. } => {
                faults.entry(*conn).or_insert((*t, *kind, *sent.get(conn).unwrap_or(&0)));
            }
            // I5: the terminal was in the middle of an exchange (waiting for an acknowledgement, or about to send its next
            //     packet) when a new command arrived on the same connection: the client gave that exchange up (an outer
            //     time-out, a dropped future) and kept the connection
            SEv::Unexpected { conn, apdu, t } if apdu[..] != ACK => {
                return v("I5", "command-into-unfinished-exchange", format!("connection {conn} at {t:.0} s: the terminal was still inside its {:?} exchange when the client wrote {} on the same connection", last_rx_kind.get(conn), clip(&hex(apdu), 60)));
            }
            _ => {}
        }
    }
    let opens: Vec<(usize, usize)> = vs.iter().filter_map(|(c, v)| v.open.map(|i| (i, *c))).collect();
    for (c, cv) in &vs {
        // I1: Registration with the configured password / config byte / currency first, then the system-info query,
        //     before any other command
        let cmds: Vec<&(usize, f64, Vec<u8>)> = cv.apdus.iter().filter(|a| a.2[..] != ACK).collect();
        if let Some(first) = cmds.first() {
            let ok = match decode(&t, &t["Registration"], &first.2) {
                Ok((r, rest)) => rest.is_empty() && first.2[0] == 0x06 && first.2[1] == 0x00 && get_u(&r, "password") == Some(sc.cfg.password) && get_u(&r, "config_byte") == Some(0xde) && get_u(&r, "currency") == Some(sc.cfg.currency),
                Err(_) => false,
            };
            if !ok {
                return v("I1", "no-registration-first", format!("connection {c}: first packet written is {} - expected a Registration with password {}, config byte de, currency {}", clip(&hex(&first.2), 80), sc.cfg.password, sc.cfg.currency));
            }
        }
        if let Some(second) = cmds.get(1) {
            let ok = matches!(decode(&t, &t["feig.CVendFunctions"], &second.2), Ok((r, rest)) if rest.is_empty() && get_u(&r, "instr") == Some(1));
            if !ok {
                return v("I1", "command-before-identity-check", format!("connection {c}: second command written is {} - expected the system-info query (0f a1 .. 00 01) before any other command", clip(&hex(&second.2), 80)));
            }
            // the registration's completion must have been acknowledged before
            let acks_before = cv.apdus.iter().filter(|a| a.0 <= second.0 && a.2[..] == ACK).count();
            if acks_before < 1 {
                return v("I1", "identity-check-before-registration-finished", format!("connection {c}: system-info query written before the registration's completion was acknowledged"));
            }
        }
        // I2: wrong serial => nothing but that reply's ack, then closed
        if let Some(upto) = wrong_serial.get(c) {
            let delivered = cv.reads.iter().find(|r| r.2 >= *upto).map(|r| r.0);
            if let Some(d) = delivered {
                let after: Vec<&(usize, f64, Vec<u8>)> = cv.apdus.iter().filter(|a| a.0 > d).collect();
                if after.len() > 1 || after.iter().any(|a| a.2[..] != ACK) {
                    return v("I2", "used-despite-wrong-serial", format!("connection {c} reported another serial number, yet the client wrote {:?} on it afterwards", after.iter().map(|a| clip(&hex(&a.2), 40)).collect::<Vec<_>>()));
                }
                let next_open = opens.iter().find(|(i, _)| *i > d).map(|(i, _)| *i).unwrap_or(usize::MAX);
                match cv.drop {
                    Some(dr) if dr < next_open => {}
                    _ => return v("I2", "wrong-serial-connection-kept", format!("connection {c} reported another serial number and was not closed before the next connection / the end")),
                }
            }
        }
        // I3: after a delivered fault no byte is written, the connection is dropped before the next one opens
        if let Some((tf, kind, before)) = faults.get(c) {
            let delivered: Option<usize> = match kind {
                FaultKind::Close => cv.eof,
                FaultKind::Garbage | FaultKind::Nack => cv.reads.iter().find(|r| r.2 > *before).map(|r| r.0),
                FaultKind::Silence | FaultKind::HeaderThenSilence => None,
            };
            let bad_write = match (kind, delivered) {
                (FaultKind::Silence | FaultKind::HeaderThenSilence, _) => cv.writes.iter().find(|w| w.1 > *tf + 1e-9).map(|w| w.0),
                (_, Some(d)) => cv.writes.iter().find(|w| w.0 > d).map(|w| w.0),
                (_, None) => None,
            };
            if let Some(w) = bad_write {
                let bytes = if let CEv::Write { bytes, .. } = &clog[w] { hex(bytes) } else { String::new() };
                return v("I3", "written-after-fault", format!("connection {c}: fault {kind:?} delivered at t={tf:.0}s, yet the client later wrote {} on the same connection", clip(&bytes, 60)));
            }
            let fault_seen = match kind {
                FaultKind::Silence | FaultKind::HeaderThenSilence => true,
                _ => delivered.is_some(),
            };
            if fault_seen {
                let from = delivered.or(cv.writes.last().map(|w| w.0)).unwrap_or(0);
                let next_open = opens.iter().find(|(i, cc)| *i > from && cc != c).map(|(i, _)| *i).unwrap_or(usize::MAX);
                match cv.drop {
                    Some(dr) if dr < next_open => {}
                    Some(_) => return v("I3", "faulty-connection-not-dropped-before-reconnect", format!("connection {c} saw {kind:?} but was still open when the next connection was opened")),
                    None => return v("I3", "faulty-connection-kept", format!("connection {c} saw {kind:?} at t={tf:.0}s and was never abandoned")),
                }
            }
        }
    }
    // I4: a connection on which every exchange completed is kept and reused by the next call
    //     (the follow-up call is the last of `ops`)
    if let (Some(last), true) = (tr.calls.last(), tr.calls.len() >= 2) {
        let before: Vec<(usize, &ConnView)> = vs.iter().filter(|(_, cv)| cv.open.map(|o| o < last.clog_from).unwrap_or(false)).map(|(c, cv)| (*c, cv)).collect();
        if let Some((c, cv)) = before.last() {
            let clean = !faults.contains_key(c) && !wrong_serial.contains_key(c);
            // every command on it got its final answer: the terminal is not in the middle of an exchange
            let held = cv.drop.map(|d| d >= last.clog_from).unwrap_or(true);
            let prev_ok = tr.calls[tr.calls.len() - 2].result.is_some();
            if clean && prev_ok {
                if !held {
                    return v("I4", "healthy-connection-dropped", format!("connection {c} completed every exchange, yet it was closed before the next call"));
                }
                let follow: Vec<&CEv> = clog[last.clog_from..last.clog_to].iter().collect();
                if let Some(CEv::Open { conn, .. }) = follow.iter().find(|e| matches!(e, CEv::Open { .. })) {
                    // a new connection is only legitimate if the follow-up itself hit a fault on the old one first
                    let fault_in_followup = faults.get(c).is_some();
                    if !fault_in_followup {
                        return v("I4", "reconnect-without-failure", format!("connection {c} was healthy, yet the next call opened connection {conn}"));
                    }
                }
                let regs = follow.iter().filter(|e| matches!(e, CEv::Write { conn, bytes, .. } if conn == c && bytes.len() >= 2 && bytes[0] == 0x06 && bytes[1] == 0x00)).count();
                if regs > 0 {
                    return v("I4", "re-registration-on-healthy-connection", format!("the next call sent a Registration on the healthy connection {c}"));
                }
            }
        }
    }
    // I6: a connection on which the terminal never failed, refused or identified itself wrongly - it merely took its time,
    //     always less than the per-packet time-out - is not given up by the client while the calls are running
    if let Some(last) = tr.calls.last() {
        for (c, cv) in &vs {
            let clean = !faults.contains_key(c) && !wrong_serial.contains_key(c) && !refused.contains(c);
            if clean && cv.open.is_some() {
                if let Some(d) = cv.drop {
                    if d < last.clog_to {
                        return v("I6", "connection-given-up-without-a-failure", format!("connection {c}: the terminal delivered no fault, no refusal and the right serial number on it (it was at most slow, inside the time-out), yet the client closed it while the calls were still running"));
                    }
                }
            }
        }
    }
    Ok(())
}

pub fn check_scenario(sc: &Scenario) -> CheckResult {
    let input = serde_json::to_value(sc).unwrap();
    let tr = guard(|| run_scenario(sc)).map_err(|p| Violation::new("conn", "C09 kind=harness-panic".to_string(), p, input.clone()))?;
    if !tr.new_returned && !sc.observe_new {
        return Ok(());
    }
    if tr.calls.iter().any(|c| c.panicked.is_some() || c.result.is_none()) {
        return Ok(()); // hangs / panics are C10's verdict
    }
    check_invariants(sc, &tr)
}

pub fn replay(_check: &str, i: &Value) -> Option<CheckResult> {
    Some(check_scenario(&serde_json::from_value(i.clone()).ok()?))
}

const FAULTS: [FaultKind; 4] = [FaultKind::Close, FaultKind::Garbage, FaultKind::Nack, FaultKind::Silence];

fn with_followup(mut sc: Scenario) -> Scenario {
    if sc.observe_new {
        // observe the handshake + configure of Feig::new, then a follow-up call
        sc.ops = vec![Op::ReadCard, Op::ReadCard];
    } else {
        sc.ops.push(Op::ReadCard);
    }
    sc
}

pub fn single_fault_scenarios(op: &str, cfg: &CfgSpec) -> Vec<(Scenario, bool)> {
    let script = dry_run(op, cfg);
    let from_start = op == "new";
    let mut out = vec![];
    let mk = |plan: Vec<PlanEntry>| {
        let mut sc = base_scenario(op, cfg.clone());
        sc.sim.intermediates = 1;
        sc.plan = plan;
        with_followup(sc)
    };
    // fault-free: reuse (I4)
    out.push((mk(vec![]), false));
    for (kind, occ, packets) in &script {
        let handshake = *kind == Kind::Registration || (from_start && *kind == Kind::SystemInfo && *occ == 0);
        for pos in 0..*packets {
            for fk in FAULTS {
                out.push((mk(vec![PlanEntry { kind: *kind, occ: Some(*occ), from_start, directive: Directive { fault: Some((fk, pos)), ..Default::default() } }]), handshake || pos >= 1));
            }
        }
        if from_start && *kind == Kind::SystemInfo && *occ == 0 {
            out.push((mk(vec![PlanEntry { kind: *kind, occ: Some(0), from_start, directive: Directive { outcome: Outcome::WrongSerial, ..Default::default() } }]), true));
            // the identity query is aborted by the terminal: the connection is not vetted and must not be used
            out.push((mk(vec![PlanEntry { kind: *kind, occ: Some(0), from_start, directive: Directive { outcome: Outcome::Abort(0x83), ..Default::default() } }]), true));
        }
    }
    // the terminal drops the idle connection after an exchange that completed (position 99 = behind the last packet): the
    // next request meets a dead connection
    for (kind, occ, _) in &script {
        out.push((mk(vec![PlanEntry { kind: *kind, occ: Some(*occ), from_start, directive: Directive { fault: Some((FaultKind::Close, 99)), ..Default::default() } }]), true));
    }
    if !from_start {
        // handshake positions of a forced reconnect
        if let Some((k0, o0, _)) = script.first().cloned() {
            let close = PlanEntry { kind: k0, occ: Some(o0), from_start, directive: Directive { fault: Some((FaultKind::Close, 0)), ..Default::default() } };
            for hk in [Kind::Registration, Kind::SystemInfo] {
                for pos in 0..2 {
                    for fk in FAULTS {
                        out.push((mk(vec![close.clone(), PlanEntry { kind: hk, occ: Some(0), from_start, directive: Directive { fault: Some((fk, pos)), ..Default::default() } }]), true));
                    }
                }
            }
            out.push((mk(vec![close.clone(), PlanEntry { kind: Kind::SystemInfo, occ: Some(0), from_start, directive: Directive { outcome: Outcome::WrongSerial, ..Default::default() } }]), true));
            // several wrong-serial connections in a row
            out.push((mk(vec![close.clone(), PlanEntry { kind: Kind::SystemInfo, occ: Some(0), from_start, directive: Directive { outcome: Outcome::WrongSerial, ..Default::default() } }, PlanEntry { kind: Kind::SystemInfo, occ: Some(1), from_start, directive: Directive { outcome: Outcome::WrongSerial, ..Default::default() } }]), true));
        }
    }
    out
}

pub fn run(tier: Tier) -> i32 {
    let ctx = Ctx::new(P, "fault_enumeration", tier);
    let mut stats = Stats::new();
    stats.sample_cap = 8;
    crate::run_regressions(&ctx, &mut stats, replay);
    let cfg0 = CfgSpec { terminal_id: "11112222".into(), ..Default::default() };
    // 1. single faults: every position x every kind, each followed by one more call
    let s = ctx.shards("single", OPS.len() as u64, |i, _seed, st| {
        let op = OPS[i as usize];
        for (k, (sc, nt)) in single_fault_scenarios(op, &cfg0).iter().enumerate() {
            st.case(*nt, fnv(&serde_json::to_vec(sc).unwrap()));
            st.class(&format!("single-fault:{op}"));
            if k == 9 {
                st.sample(|| json!({"op": op, "plan": sc.plan, "then": "read_card"}));
            }
            ctx.record(check_scenario(sc), st);
        }
    });
    stats.merge(s);
    // 1a. the configured serial number differs from the reported one (17FD1E3C) in other ways than a wholly different
    //     value: truncated, a mere prefix, empty (the default configuration), longer, one character off
    let mut s1a = Stats::new();
    for (k, serial) in ["17fd1e3", "17FD1E3", "17fd", "1", "", "17fd1e3c0", "17fd1e3cc", "7fd1e3c", "17fd1e3d", "27fd1e3c"].iter().enumerate() {
        for op in ["new", "read_card", "begin", "configure"] {
            let cfg = CfgSpec { serial: serial.to_string(), ..cfg0.clone() };
            let mut sc = with_followup(base_scenario(op, cfg));
            sc.sim.intermediates = k % 2;
            s1a.case(true, fnv(&serde_json::to_vec(&sc).unwrap()));
            s1a.class("configured-serial-differs(prefix/empty/longer/one-off)");
            ctx.record(check_scenario(&sc), &mut s1a);
        }
    }
    stats.merge(s1a);
    // 1aa. time budgets: k consecutive silent attempts of one exchange inside Feig::new (k x 60 s), and a terminal that is
    //      merely slow (every packet of the long exchanges 50 s late, eight intermediate statuses: minutes per exchange, no
    //      single time-out) - then two more calls
    let mut s1b = Stats::new();
    for k in 1..=9usize {
        for kind in [Kind::Init, Kind::EndOfDay, Kind::SetTerminalId] {
            let mut sc = with_followup(base_scenario("new", cfg0.clone()));
            sc.sim.intermediates = 1;
            sc.plan = (0..k).map(|o| PlanEntry { kind, occ: Some(o), from_start: true, directive: Directive { fault: Some((FaultKind::Silence, 1)), ..Default::default() } }).collect();
            s1b.case(true, fnv(&serde_json::to_vec(&sc).unwrap()));
            s1b.class("new:k-consecutive-silent-attempts");
            ctx.record(check_scenario(&sc), &mut s1b);
        }
    }
    for (ms, inter) in [(50_000u64, 8usize), (30_000, 12), (59_000, 6), (10_000, 40)] {
        for op in ["new", "configure", "commit"] {
            let mut sc = with_followup(base_scenario(op, cfg0.clone()));
            sc.sim.intermediates = inter;
            sc.plan = [Kind::Init, Kind::EndOfDay, Kind::PartialReversal].iter().map(|k| PlanEntry { kind: *k, occ: None, from_start: op == "new", directive: Directive { delay_ms: Some((98, ms)), ..Default::default() } }).collect();
            s1b.case(true, fnv(&serde_json::to_vec(&sc).unwrap()));
            s1b.class("slow-terminal:every-packet-late-but-inside-the-time-out");
            ctx.record(check_scenario(&sc), &mut s1b);
        }
    }
    // a reconnect whose handshake is slow, followed by an exchange whose first reply is slow: every single wait is inside
    // the per-packet time-out (60 s), their sum is not (the handshake as a whole stays below it too) - the fresh connection must be kept all the same
    for (dh, dr) in [(25_000u64, 25_000u64), (29_000, 29_000), (20_000, 35_000), (1_000, 55_000), (28_000, 50_000)] {
        for op in ["begin", "commit", "cancel", "configure"] {
            let mut sc = base_scenario(op, cfg0.clone());
            sc.sim.intermediates = 1;
            // an earlier read_card whose connection the terminal drops once the exchange is complete
            sc.ops.insert(0, Op::ReadCard);
            sc.ops.push(Op::ReadCard);
            let mut plan = vec![PlanEntry { kind: Kind::ReadCard, occ: Some(0), from_start: false, directive: Directive { fault: Some((FaultKind::Close, 99)), ..Default::default() } }];
            for k in [Kind::Registration, Kind::SystemInfo] {
                plan.push(PlanEntry { kind: k, occ: Some(0), from_start: false, directive: Directive { delay_ms: Some((98, dh)), ..Default::default() } });
            }
            for k in [Kind::Reservation, Kind::PartialReversal, Kind::PreAuthReversal, Kind::Init] {
                plan.push(PlanEntry { kind: k, occ: Some(0), from_start: false, directive: Directive { delay_ms: Some((1, dr)), ..Default::default() } });
            }
            sc.plan = plan;
            s1b.case(true, fnv(&serde_json::to_vec(&sc).unwrap()));
            s1b.class("slow-handshake-then-slow-first-reply");
            ctx.record(check_scenario(&sc), &mut s1b);
        }
    }
    stats.merge(s1b);
    // 1b. configurations: the registration on every (re)connection carries the configured password and currency
    let s = ctx.shards("configs", 8, |_i, seed, st| {
        let strat = (
            prop_oneof![Just(0u64), Just(999_999), Just(1), 0u64..=999_999],
            prop_oneof![Just(978u64), Just(826), Just(752), Just(0), Just(9999)],
            0usize..6,
            any::<u16>(),
            any::<bool>(),
        );
        ctx.proptest(seed, tier.pick(60, 2_000), &strat, st, |(password, currency, opi, sel, tid_same), st| {
            let op = OPS[*opi];
            let cfg = CfgSpec { password: *password, currency: *currency, terminal_id: if *tid_same { "52523535".into() } else { "11112222".into() }, ..Default::default() };
            let scs = single_fault_scenarios(op, &cfg);
            let (sc, _) = &scs[(*sel as usize * scs.len()) >> 16];
            st.case(true, fnv(&serde_json::to_vec(sc).unwrap()));
            st.class("config-variation");
            check_scenario(sc)
        });
    });
    stats.merge(s);
    // 2. sampled multi-fault plans
    let n: u32 = tier.pick(5_000, 300_000);
    let s = ctx.shards("multi", 16, |_i, seed, st| {
        let kinds = vec![Kind::Registration, Kind::SystemInfo, Kind::SetTerminalId, Kind::Init, Kind::EndOfDay, Kind::ReadCard, Kind::Reservation, Kind::PendingQuery, Kind::PartialReversal, Kind::PreAuthReversal];
        let entry = (proptest::sample::select(kinds), 0usize..4, 0usize..4, prop_oneof![4 => proptest::sample::select(FAULTS.to_vec()).prop_map(Some), 1 => Just(None)], any::<bool>()).prop_map(|(kind, occ, pos, fk, from_start)| match fk {
            Some(fk) => PlanEntry { kind, occ: Some(occ), from_start, directive: Directive { fault: Some((fk, pos)), ..Default::default() } },
            None => PlanEntry { kind: Kind::SystemInfo, occ: Some(occ), from_start, directive: Directive { outcome: Outcome::WrongSerial, ..Default::default() } },
        });
        let strat = (0usize..6, proptest::collection::vec(entry, 2..=6), 0usize..3, any::<bool>());
        ctx.proptest(seed, n / 16, &strat, st, |(opi, plan, inter, tid_same), st| {
            let op = OPS[*opi];
            let cfg = CfgSpec { terminal_id: if *tid_same { "52523535".into() } else { "11112222".into() }, ..Default::default() };
            let mut sc = base_scenario(op, cfg);
            sc.sim.intermediates = *inter;
            sc.plan = plan.iter().map(|p| PlanEntry { from_start: p.from_start || op == "new", ..p.clone() }).collect();
            let sc = with_followup(sc);
            st.case(true, fnv(&serde_json::to_vec(&sc).unwrap()));
            st.class(&format!("multi-fault:{op}"));
            check_scenario(&sc)
        });
    });
    stats.merge(s);
    stats.exhaustive_parts = vec!["single faults {close, garbage, NACK, silence} at every packet position of every exchange of each of the 6 operations (handshake included, also the handshake of a forced reconnect), wrong serial at the identity check; each followed by a further call".into()];
    ctx.finish(
        stats,
        "the real Feig client against the simulated terminal on paused time; positions from a fault-free dry run; one fault per position and kind (exhaustive), configured serial numbers that are a prefix / empty / longer / one character off the reported one, then proptest plans of 2..6 faults (incl. several wrong-serial connections in a row), each followed by one more fault-free call. Oracle = invariants over the client-side per-connection log: I1 every connection starts with Registration(password, config byte, currency) then the system-info query before any other command; I2 nothing but one ack is written after a wrong serial and the connection is closed; I3 after a delivered fault (garbage/NACK read, EOF, time-out after silence) nothing is written on that connection and it is dropped before the next one opens; I4 a connection whose exchanges all completed is kept and reused without a new Registration; I5 no command is written on a connection whose terminal is still inside an exchange; I6 a connection on which the terminal delivered no fault, refusal or wrong serial (it was at most slow, inside the time-out) is not given up while calls are running. Also: 1..9 consecutive silent attempts inside Feig::new and a slow terminal (every packet 10..59 s late, minutes per exchange) followed by further calls; a reconnect with a slow handshake followed by a slow first reply (each wait below the time-out, the sum above it). non-trivial = fault at a handshake position or at a reply position >= 1, every multi-fault plan; distinct by scenario",
        &["the client-side log is written by the stream object handed to the client (virtual time stamps), so orderings do not depend on task scheduling", "fault kinds of Appendix C; RSTs / short writes are not modelled"],
        false,
    )
}
