//! C01 (round trip) and C03 (wire layout) — one pass over generated canonical values, two separate verdicts.
use crate::engine::*;
use crate::gen::*;
use crate::refc::*;
use crate::registry::{types, TypeEntry};
use proptest::prelude::*;
use serde_json::{json, Value};
use std::sync::Arc;

/// first top-level field whose rendering does not occur in the real Debug string
fn first_bad_field(v: &Val, dbg: &str) -> String {
    if let Val::St(_, fs) = v {
        let mut pos = 0usize;
        for (k, fv) in fs {
            let frag = format!("{k}: {}", render(fv));
            match dbg[pos.min(dbg.len())..].find(&frag) {
                Some(i) => pos += i + frag.len(),
                None => return k.clone(),
            }
        }
    }
    "?".into()
}
/// first field whose reference group is not found at its offset in the real re-encoding
fn first_bad_group(t: &Table, l: &Layout, v: &Val, re: &[u8], bytes: &[u8]) -> String {
    let Ok(groups) = enc_groups(t, l, v) else { return "?".into() };
    let body: usize = groups.iter().map(|g| g.len()).sum();
    let hdr = bytes.len() - body;
    let mut off = 0;
    if hdr > 0 {
        // command: class, instr must agree; the length field is judged after the groups
        if re.len() < 3 || re[..2] != bytes[..2] {
            return "<control-field>".into();
        }
        off = if re[2] == 0xff { 5 } else { 3 };
    }
    for (f, g) in l.fields.iter().zip(&groups) {
        if re.len() < off + g.len() || re[off..off + g.len()] != g[..] {
            return f.name.clone();
        }
        off += g.len();
    }
    if hdr > 0 && re.get(..off) != Some(&bytes[..hdr]) {
        return "<apdu-length>".into();
    }
    "<trailing>".into()
}

pub struct CodecVerdict {
    pub c01: CheckResult,
    pub c03: CheckResult,
}

/// The five conditions of DESIGN.md 5.3 for one canonical value.
pub fn codec_case(t: &Table, e: &TypeEntry, v: &Val) -> CodecVerdict {
    let l = &t[e.name];
    let bytes = encode(t, l, v).expect("canonical value encodes");
    let input = json!({"type": e.name, "value": v, "bytes": hex(&bytes)});
    let want = render(v);
    let ty = e.name;
    let mut out = CodecVerdict { c01: Ok(()), c03: Ok(()) };
    let pr = match guard(|| (e.probe)(&bytes)) {
        Err(p) => {
            out.c03 = Err(Violation::new("codec", format!("C03 type={ty} kind=panic"), format!("decoding reference bytes {} panicked: {p}\n  value: {want}", hex(&bytes)), input.clone()));
            out.c01 = Err(Violation::new("codec", format!("C01 type={ty} kind=panic"), format!("probe panicked: {p}\n  value: {want}"), input));
            return out;
        }
        Ok(Err(err)) => {
            out.c03 = Err(Violation::new("codec", format!("C03 type={ty} kind=decode-error"), format!("bytes assembled from the layout table do not decode: {err:?}\n  bytes: {}\n  value: {want}", hex(&bytes)), input));
            return out;
        }
        Ok(Ok(p)) => p,
    };
    // C03 <- : decodes into exactly the named fields, nothing left
    if pr.dbg != want {
        let f = first_bad_field(v, &pr.dbg);
        out.c03 = Err(Violation::new("codec", format!("C03 type={ty} field={f} kind=value-mismatch"), format!("bytes {} (layout table) decode to\n   {}\n  expected\n   {}", hex(&bytes), clip(&pr.dbg, 600), clip(&want, 600)), input.clone()));
    } else if pr.rest != 0 {
        out.c03 = Err(Violation::new("codec", format!("C03 type={ty} kind=leftover"), format!("{} bytes left over after decoding {}", pr.rest, hex(&bytes)), input.clone()));
    } else if pr.re != bytes {
        // C03 -> : re-encodes to the identical bytes
        let f = first_bad_group(t, l, v, &pr.re, &bytes);
        out.c03 = Err(Violation::new("codec", format!("C03 type={ty} field={f} kind=reencode-differs"), format!("value {}\n  layout table: {}\n  re-encoded:   {}", clip(&want, 400), clip(&hex(&bytes), 600), clip(&hex(&pr.re), 600)), input.clone()));
    }
    // C01: serialise -> deserialise of the real value returns an equal value, nothing left
    if !pr.again {
        // name the field the encoder mishandles, if C03 found it
        let f = if pr.re != bytes { first_bad_group(t, l, v, &pr.re, &bytes) } else { "?".into() };
        out.c01 = Err(Violation::new("codec", format!("C01 type={ty} field={f} kind=roundtrip"), format!("value {}\n  serialises to {}\n  which does not deserialise to the same value: {}", clip(&pr.dbg, 600), clip(&hex(&pr.re), 600), clip(&pr.again_detail, 400)), input));
    }
    out
}

pub fn replay_prop(prop: &str, _check: &str, i: &Value) -> Option<CheckResult> {
    let t = crate::table();
    let name = i.get("type")?.as_str()?;
    let v: Val = serde_json::from_value(i.get("value")?.clone()).ok()?;
    let e = types().into_iter().find(|e| e.name == name)?;
    if !is_canonical(&t, &t[name], &v) {
        return Some(Ok(()));
    }
    let r = codec_case(&t, &e, &v);
    Some(if prop == "C01" { r.c01 } else { r.c03 })
}
pub fn replay_c01(check: &str, i: &Value) -> Option<CheckResult> {
    if check == "direct" {
        return replay_direct("C01", i);
    }
    replay_prop("C01", check, i)
}
pub fn replay_c03(check: &str, i: &Value) -> Option<CheckResult> {
    if check == "direct" {
        return replay_direct("C03", i);
    }
    if check == "capture" {
        return Some(check_capture(&crate::table(), i.get("file")?.as_str()?, i.get("type")?.as_str()?, &unhex(i.get("bytes")?.as_str()?)));
    }
    replay_prop("C03", check, i)
}

fn switch_point(n: usize) -> bool {
    matches!(n, 126..=129 | 253..=257 | 65530..=65535)
}

/// Captured blobs: (file, type). Independent reading of which packet each capture is.
pub const CAPTURES: &[(&str, &str)] = &[
    ("1680722649.972316000_ecr_pt.blob", "ReadCard"),
    ("1680728161.963129000_pt_ecr.blob", "StatusInformation"),
    ("1680728162.033575000_ecr_pt.blob", "Reservation"),
    ("1680728162.647465000_pt_ecr.blob", "IntermediateStatusInformation"),
    ("1680728165.675509000_pt_ecr.blob", "StatusInformation"),
    ("1680728213.562478000_ecr_pt.blob", "PreAuthReversal"),
    ("1680728215.585561000_pt_ecr.blob", "PrintTextBlock"),
    ("1680728215.659492000_pt_ecr.blob", "StatusInformation"),
    ("1680728219.054216000_pt_ecr.blob", "ReceiptPrintoutCompletion"),
    ("1680761818.641601000_pt_ecr.blob", "CompletionData"),
    ("1680761818.690979000_ecr_pt.blob", "feig.CVendFunctions"),
    ("1680761818.768770000_pt_ecr.blob", "feig.CVendFunctionsEnhancedSystemInformationCompletion"),
    ("1680761828.489701000_pt_ecr.blob", "StatusInformation"),
    ("1681273860.511128000_ecr_pt.blob", "Registration"),
    ("1681282621.302434000_ecr_pt.blob", "EndOfDay"),
    ("1681455683.221609000_ecr_pt.blob", "PartialReversal"),
    ("1682066249.409078000_pt_ecr.blob", "StatusInformation"),
    ("1682080275.594788000_192.168.0.139_192.168.0.59.blob", "feig.WriteFile"),
    ("1682080275.777628000_192.168.0.59_192.168.0.139.blob", "feig.RequestForData"),
    ("1682080310.907262000_192.168.0.139_192.168.0.59.blob", "feig.WriteData"),
    ("change_host_config.blob", "feig.ChangeConfiguration"),
    ("partial_reversal.blob", "PartialReversalAbort"),
    ("print_system_configuration_reply.blob", "PrintTextBlock"),
    ("status_information_read_card.blob", "StatusInformation"),
];

pub fn load_captures() -> Vec<(String, String, Vec<u8>)> {
    let mut out = vec![];
    for (f, ty) in CAPTURES {
        if let Ok(b) = std::fs::read(format!("/repo/zvt/data/{f}")) {
            out.push((f.to_string(), ty.to_string(), b));
        }
    }
    out
}

/// A captured packet: the reference decoder and the real decoder must read the same value from it; where the
/// capture is canonical for the table (reference re-encoding reproduces it) the real encoder must reproduce it too.
pub fn check_capture(t: &Table, file: &str, ty: &str, bytes: &[u8]) -> CheckResult {
    let input = json!({"file": file, "type": ty, "bytes": hex(bytes)});
    let e = types().into_iter().find(|e| e.name == ty).unwrap();
    let l = &t[ty];
    let Ok((v, rest)) = decode(t, l, bytes) else { return Ok(()) }; // capture outside the table's model: decoded only by the repo's own tests
    let pr = match guard(|| (e.probe)(bytes)) {
        Err(p) => return Err(Violation::new("capture", format!("C03 capture={file} kind=panic"), p, input)),
        Ok(Err(err)) => return Err(Violation::new("capture", format!("C03 capture={file} kind=decode-error"), format!("{err:?}"), input)),
        Ok(Ok(p)) => p,
    };
    if pr.dbg != render(&v) || pr.rest != rest.len() {
        return Err(Violation::new("capture", format!("C03 capture={file} field={} kind=value-mismatch", first_bad_field(&v, &pr.dbg)), format!("capture decodes to\n   {}\n  reference reading\n   {}", clip(&pr.dbg, 700), clip(&render(&v), 700)), input));
    }
    if rest.is_empty() {
        if let Ok(re) = encode(t, l, &v) {
            if re == bytes && pr.re != bytes {
                return Err(Violation::new("capture", format!("C03 capture={file} field={} kind=reencode-differs", first_bad_group(t, l, &v, &pr.re, bytes)), format!("captured {}\n  re-encoded {}", clip(&hex(bytes), 500), clip(&hex(&pr.re), 500)), input));
            }
        }
    }
    Ok(())
}

pub fn run_codec(prop: &'static str, tier: Tier) -> i32 {
    let ctx = Ctx::new(prop, "exploration", tier);
    let mut stats = Stats::new();
    stats.sample_cap = 8;
    crate::run_regressions(&ctx, &mut stats, if prop == "C01" { replay_c01 } else { replay_c03 });
    let t = crate::table();
    let tys = types();
    assert_eq!(tys.len(), 55);
    let per_type: u32 = tier.pick(4_000, 120_000);
    let parts: u64 = tier.pick(1, 8);
    let cfg = tier.pick(GenCfg::quick(), GenCfg::thorough());
    if prop == "C03" {
        for (f, ty, b) in load_captures() {
            let r = check_capture(&t, &f, &ty, &b);
            stats.case(true, fnv(&b));
            stats.class("captured-blob");
            ctx.record(r, &mut stats);
        }
    }
    let s = ctx.shards("types", 55 * parts, |i, seed, st| {
        let e = &tys[(i % 55) as usize];
        let l = t[e.name].clone();
        let is_cmd = l.ctrl.is_some();
        let targets: Vec<usize> = if tier == Tier::Thorough { vec![126, 127, 128, 129, 253, 254, 255, 256, 257, 999, 1000, 65534, 65535] } else { vec![126, 127, 128, 129, 253, 254, 255, 256, 257] };
        let strat = (strategy_for(&t, e.name, cfg), prop_oneof![6 => Just(None), 1 => proptest::sample::select(targets).prop_map(Some)]);
        let t2: Arc<Table> = t.clone();
        ctx.proptest(seed, per_type / parts as u32, &strat, st, |(v0, target), st| {
            let mut v = v0.clone();
            if let Some(tg) = target {
                if let Some(p) = pump(&t2, &l, &v, *tg) {
                    v = p;
                    st.class("size-pumped");
                }
            }
            if !is_canonical(&t2, &l, &v) {
                st.class("discarded-non-canonical");
                return Ok(());
            }
            let bytes = encode(&t2, &l, &v).unwrap();
            let sh = shape(&v);
            let body = bytes.len() - if is_cmd { if bytes[2] == 0xff { 5 } else { 3 } } else { 0 };
            let nontrivial = sh.present >= 2 || sh.nested || switch_point(body);
            st.case(nontrivial, fnv(&bytes) ^ fnv_str(e.name));
            if is_cmd && body >= 255 {
                st.class("apdu-extended-length");
            }
            if switch_point(body) {
                st.class("body-length-on-switch-point");
            }
            if sh.nested {
                st.class("nested-container");
            }
            if sh.vec_elems > 0 {
                st.class("vec-non-empty");
            }
            if i < 55 && st.samples.len() < 1 && sh.present >= 2 {
                st.sample(|| json!({"type": e.name, "value": render(&v), "bytes": clip(&hex(&bytes), 160)}));
            }
            let r = codec_case(&t2, e, &v);
            if prop == "C01" {
                r.c01
            } else {
                r.c03
            }
        });
    });
    stats.merge(s);
    // direct layer: typed values constructed from the generated values (no decode-first bridge), in its own crate
    match direct_side(prop, &ctx, tier) {
        Ok(mut s) => {
            let vs = std::mem::take(&mut s.violations);
            stats.merge(s);
            for v in vs {
                ctx.record(Err(v), &mut stats);
            }
        }
        Err(why) => stats.notes.push(format!("direct layer skipped (the constructor crate /verif/direct did not build or run against this tree): {why}")),
    }
    let (rule, assume): (&str, Vec<&str>) = if prop == "C01" {
        (
            "55 shipped types x canonical values from the table-driven proptest strategies (presence bits, vec lengths, boundary-biased numbers/lengths, CP437/hex alphabets, size pump to APDU/TLV switch points). Each value is reference-encoded, decoded by the repo into a real value, then serialised and deserialised by the repo and compared with PartialEq. Direct layer (classes direct:*): the same strategies, but the typed value is built by a struct literal from the generated value (constructors generated from the layout table's field names, crate /verif/direct), serialised and read back: it must come back equal, with the same Debug rendering and nothing left. non-trivial = >= 2 present fields or a nested container or body length on a switch point; distinct by hash of the reference encoding",
            vec!["canonical domain = fixed points of the reference codec (DESIGN.md 5.1)", "in the main layer values reach the real types through the repo's decoder (decode-first); the direct layer constructs them (two types with private fields, SelectLanguage and tlv.StatusEnquiry, cannot be constructed and are covered by the main layer only)"],
        )
    } else {
        (
            "55 shipped types x canonical values (as C01): bytes assembled by the reference codec from the independent layout table must decode (repo) to exactly the named fields with nothing left, and the repo must re-encode the value to the identical bytes; direct layer (classes direct:*): the typed value built by a struct literal must serialise to exactly the reference bytes; plus the 24 captured blobs read by both decoders. non-trivial as C01; distinct by hash of the reference encoding",
            vec!["the layout table (harness/src/layouts.tbl) is a hand transcription of the ZVT / Feig specification, validated against the captured blobs; an error shared by table and code is invisible"],
        )
    };
    ctx.finish(stats, rule, &assume, false)
}

/// Build and run the direct layer (crate /verif/direct) on behalf of `prop`; Err = it could not be built / run.
pub fn direct_side(prop: &'static str, ctx: &Ctx, tier: Tier) -> Result<Stats, String> {
    let root = verif_root();
    let out = std::process::Command::new("cargo")
        .args(["build", "--quiet", "--profile", "verif"])
        .current_dir(root.join("direct"))
        .env("CARGO_NET_OFFLINE", "true")
        .env("CARGO_TARGET_DIR", root.join("target"))
        .output()
        .map_err(|e| e.to_string())?;
    if !out.status.success() {
        return Err(String::from_utf8_lossy(&out.stderr).lines().filter(|l| l.starts_with("error")).take(4).collect::<Vec<_>>().join(" | "));
    }
    let stats_file = root.join("target").join(format!("direct-stats-{prop}.json"));
    let _ = std::fs::remove_file(&stats_file);
    let status = std::process::Command::new(root.join("target").join("verif").join("zvtdirect"))
        .arg(tier.name())
        .env("VERIF_ROOT", &root)
        .env("VERIF_SEED", ctx.seed.to_string())
        .env("VERIF_DIRECT_PROP", prop)
        .env("VERIF_DIRECT_STATS", &stats_file)
        .status()
        .map_err(|e| e.to_string())?;
    if status.code() != Some(0) {
        return Err(format!("zvtdirect exited with {:?}", status.code()));
    }
    let text = std::fs::read_to_string(&stats_file).map_err(|e| e.to_string())?;
    let v: Value = serde_json::from_str(&text).map_err(|e| e.to_string())?;
    Stats::from_value(&v).ok_or("stats file not understood".to_string())
}
fn replay_direct(prop: &str, i: &Value) -> Option<CheckResult> {
    let root = verif_root();
    let built = std::process::Command::new("cargo").args(["build", "--quiet", "--profile", "verif"]).current_dir(root.join("direct")).env("CARGO_NET_OFFLINE", "true").env("CARGO_TARGET_DIR", root.join("target")).status().ok()?;
    if !built.success() {
        return None;
    }
    let tmp = root.join("target").join(format!("direct-replay-{prop}.json"));
    std::fs::write(&tmp, serde_json::to_string(i).ok()?).ok()?;
    let out = std::process::Command::new(root.join("target").join("verif").join("zvtdirect")).arg("--replay-case").arg(&tmp).env("VERIF_ROOT", &root).env("VERIF_DIRECT_PROP", prop).output().ok()?;
    let text = String::from_utf8_lossy(&out.stdout).to_string();
    match out.status.code() {
        Some(0) => Some(Ok(())),
        Some(1) => {
            let sig = text.lines().next().unwrap_or("direct replay").to_string();
            Some(Err(Violation::new("direct", sig, text, i.clone())))
        }
        _ => None,
    }
}
