//! C15 — replies are dispatched solely by their class and instruction bytes. Exhaustive in (class, instr).
use crate::engine::*;
use crate::gen::*;
use crate::refc::*;
use crate::registry::*;
use proptest::prelude::*;
use serde_json::{json, Value};

const P: &str = "C15";

fn apdu_of(class: u8, instr: u8, body: &[u8]) -> Vec<u8> {
    apdu(class, instr, body).unwrap()
}

/// One parse: enum `en`, control field, body. `owned` = Some((variant, packet type)) from the independent table.
pub fn check_parse(en: &EnumEntry, tys: &[TypeEntry], owned: Option<(&str, &str)>, class: u8, instr: u8, body: &[u8]) -> CheckResult {
    check_parse_trailing(en, tys, owned, class, instr, body, &[])
}
/// `trailing`: bytes behind the packet in the same buffer (e.g. the terminal's next packet); they belong to neither decode.
pub fn check_parse_trailing(en: &EnumEntry, tys: &[TypeEntry], owned: Option<(&str, &str)>, class: u8, instr: u8, body: &[u8], trailing: &[u8]) -> CheckResult {
    let mut bytes = apdu_of(class, instr, body);
    bytes.extend_from_slice(trailing);
    let input = json!({"enum": en.name, "class": class, "instr": instr, "body": hex(body), "trailing": hex(trailing)});
    let got = guard(|| (en.parse)(&bytes)).map_err(|p| Violation::new("parse", format!("C15 enum={} kind=panic", en.name), format!("zvt_parse({}) panicked: {p}", hex(&bytes)), input.clone()))?;
    match owned {
        None => match got {
            Err(_) => Ok(()),
            Ok(d) => Err(Violation::new("parse", format!("C15 enum={} kind=foreign-control-field-accepted", en.name), format!("control field {class:02x} {instr:02x} is outside the reply set but zvt_parse({}) = {}", clip(&hex(&bytes), 80), clip(&d, 200)), input)),
        },
        Some((variant, ty)) => {
            let te = tys.iter().find(|t| t.name == ty).unwrap();
            let own = guard(|| (te.decode)(&bytes)).map_err(|p| Violation::new("parse", format!("C15 enum={} kind=panic", en.name), p, input.clone()))?;
            match (got, own) {
                (Ok(d), Ok((v, _))) => {
                    let want = format!("{variant}({v})");
                    if d == want {
                        Ok(())
                    } else {
                        Err(Violation::new("parse", format!("C15 enum={} variant={variant} kind=wrong-variant-or-content", en.name), format!("zvt_parse({}) = {}\n  expected {}", clip(&hex(&bytes), 120), clip(&d, 300), clip(&want, 300)), input))
                    }
                }
                (Err(a), Err(b)) => {
                    if a == b {
                        Ok(())
                    } else {
                        Err(Violation::new("parse", format!("C15 enum={} variant={variant} kind=different-error", en.name), format!("zvt_parse error {a:?}, the variant's own type reports {b:?}"), input))
                    }
                }
                (Ok(d), Err(b)) => Err(Violation::new("parse", format!("C15 enum={} variant={variant} kind=accepts-what-type-rejects", en.name), format!("zvt_parse = {}, but {ty} rejects the bytes: {b:?}", clip(&d, 200)), input)),
                (Err(a), Ok((v, _))) => Err(Violation::new("parse", format!("C15 enum={} variant={variant} kind=rejects-what-type-accepts", en.name), format!("zvt_parse = Err({a:?}), but {ty} decodes {}", clip(&v, 200)), input)),
            }
        }
    }
}

pub fn check_short(en: &EnumEntry, bytes: &[u8]) -> CheckResult {
    let input = json!({"enum": en.name, "short": hex(bytes)});
    match guard(|| (en.parse)(bytes)) {
        Err(p) => Err(Violation::new("short", format!("C15 enum={} kind=panic-short-input", en.name), p, input)),
        Ok(Ok(d)) => Err(Violation::new("short", format!("C15 enum={} kind=short-input-accepted", en.name), format!("zvt_parse({}) = {}", hex(bytes), clip(&d, 100)), input)),
        Ok(Err(_)) => Ok(()),
    }
}

pub fn replay(check: &str, i: &Value) -> Option<CheckResult> {
    if check == "transport-interrupt" {
        let ens = enums();
        let en = ens.iter().find(|e| Some(e.name) == i.get("enum").and_then(|x| x.as_str()))?;
        let stream = unhex(i.get("stream")?.as_str()?);
        let n = i.get("first_len")?.as_u64()? as usize;
        let at = i.get("interrupt_at")?.as_u64()? as usize;
        let (wa, wb) = ((en.parse)(&stream[..n]).ok()?, (en.parse)(&stream[n..]).ok()?);
        let got = guard(|| (en.read)(stream.clone(), 2, Some(at)));
        let ok = matches!(&got, Ok(r) if r.len() == 2 && (r[0].is_err() || (r[0].as_ref().ok() == Some(&wa) && (r[1].is_err() || r[1].as_ref().ok() == Some(&wb)))));
        return Some(if ok { Ok(()) } else { Err(Violation::new("transport-interrupt", format!("C15 enum={} kind=packet-invented-after-interrupted-read", en.name), format!("reads gave {:?}", got), i.clone())) });
    }
    if check == "transport-large" {
        let ens = enums();
        let en = ens.iter().find(|e| Some(e.name) == i.get("enum").and_then(|x| x.as_str()))?;
        let stream = unhex(i.get("stream")?.as_str()?);
        let got = guard(|| (en.read)(stream.clone(), 4, None));
        // replay: the packets are re-derived by parsing each framed packet on its own
        let mut want = vec![];
        let mut off = 0usize;
        while off + 3 <= stream.len() {
            let (h, l) = if stream[off + 2] == 0xff { (5, u16::from_le_bytes([stream[off + 3], stream[off + 4]]) as usize) } else { (3, stream[off + 2] as usize) };
            want.push(guard(|| (en.parse)(&stream[off..off + h + l])).ok().and_then(|r| r.ok()));
            off += h + l;
        }
        let ok = match &got {
            Ok(r) => r.len() == 4 && want.len() == 3 && (0..3).all(|k| r[k].as_ref().ok() == want[k].as_ref()) && r[3].is_err(),
            Err(_) => false,
        };
        return Some(if ok { Ok(()) } else { Err(Violation::new("transport-large", format!("C15 enum={} kind=packets-behind-a-large-packet-misread", en.name), format!("reads gave {:?}", got), i.clone())) });
    }
    if check == "transport" {
        let ens = enums();
        let en = ens.iter().find(|e| Some(e.name) == i.get("enum").and_then(|x| x.as_str()))?;
        let stream = unhex(i.get("stream")?.as_str()?);
        // expectation recomputed: first packet rejected, second parsed on its own, then end of stream
        let n = 5 + u16::from_le_bytes([stream[3], stream[4]]) as usize;
        let want = (en.parse)(&stream[n..]).ok()?;
        let got = guard(|| (en.read)(stream.clone(), 3, None));
        let ok = matches!(&got, Ok(r) if r.len() == 3 && r[0].is_err() && r[1].as_ref().ok() == Some(&want) && r[2].is_err());
        return Some(if ok { Ok(()) } else { Err(Violation::new("transport", format!("C15 enum={} kind=rejected-packet-body-read-as-packets", en.name), format!("three reads gave {:?}; expected [Err, Ok({}), Err]", got, clip(&want, 120)), i.clone())) });
    }
    if check == "via-sequence" {
        return Some(crate::props::c05::check_seq(&crate::props::c05::Model::new(), &serde_json::from_value(i.clone()).ok()?).map_err(|mut v| {
            v.check = "via-sequence".into();
            v.sig = v.sig.replacen("C05 ", "C15 via-sequence ", 1);
            v
        }));
    }
    let ens = enums();
    let tys = types();
    let table = enum_table();
    let name = i.get("enum")?.as_str()?;
    let en = ens.iter().find(|e| e.name == name)?;
    Some(match check {
        "short" => check_short(en, &unhex(i.get("short")?.as_str()?)),
        "parse" => {
            let (c, n) = (i.get("class")?.as_u64()? as u8, i.get("instr")?.as_u64()? as u8);
            let owned = table.iter().find(|(e, _)| *e == name)?.1.iter().find(|(cc, ii, _, _)| (*cc, *ii) == (c, n)).map(|(_, _, v, t)| (*v, *t));
            check_parse_trailing(en, &tys, owned, c, n, &unhex(i.get("body")?.as_str()?), &unhex(i.get("trailing").and_then(|t| t.as_str()).unwrap_or("")))
        }
        _ => return None,
    })
}

pub fn run(tier: Tier) -> i32 {
    let ctx = Ctx::new(P, "exploration", tier);
    let mut stats = Stats::new();
    crate::run_regressions(&ctx, &mut stats, replay);
    let t = crate::table();
    let ens = enums();
    let tys = types();
    let table = enum_table();
    assert_eq!(ens.len(), table.len());
    let per_variant = tier.pick(3usize, 40);
    let nrandom = tier.pick(8usize, 60);
    let s = ctx.shards("enums", ens.len() as u64 * 16, |i, seed, st| {
        let ei = (i / 16) as usize;
        let part = (i % 16) as u32;
        let en = &ens[ei];
        let owned = &table.iter().find(|(e, _)| *e == en.name).expect("enum in table").1;
        // bodies: empty, canonical bodies of each variant's type, random
        let eseed = ctx.seed_for("bodies", ei as u64);
        let mut bodies: Vec<(String, Vec<u8>)> = vec![("empty".into(), vec![])];
        for (_, _, _, ty) in owned.iter() {
            let l = &t[*ty];
            for v in ctx.sample_values(eseed ^ fnv_str(ty), per_variant, &strategy_for(&t, ty, GenCfg::small())) {
                if is_canonical(&t, l, &v) {
                    bodies.push((format!("canonical:{ty}"), enc_struct_body(&t, l, &v).unwrap()));
                }
            }
        }
        for b in ctx.sample_values(eseed, nrandom, &proptest::collection::vec(any::<u8>(), 0..24)) {
            bodies.push(("random".into(), b));
        }
        if part == 0 {
            for short in [vec![], vec![0x06], vec![0x04], vec![0x80], vec![0xff]] {
                let r = check_short(en, &short);
                st.case(!short.is_empty(), fnv(&short) ^ fnv_str(en.name));
                st.class("shorter-than-two-bytes");
                ctx.record(r, st);
            }
            st.sample(|| json!({"enum": en.name, "owned": owned.iter().map(|(c, i, v, _)| format!("{c:02x}{i:02x}={v}")).collect::<Vec<_>>(), "bodies": bodies.len()}));
        }
        let _ = seed;
        let (mut n, mut nt) = (0u64, 0u64);
        for class in (part * 16)..(part * 16 + 16) {
            for instr in 0..=255u32 {
                let (c, ins) = (class as u8, instr as u8);
                let own = owned.iter().find(|(cc, ii, _, _)| (*cc, *ii) == (c, ins)).map(|(_, _, v, ty)| (*v, *ty));
                let related = own.is_some() || owned.iter().any(|(cc, ii, _, _)| *cc == c || *ii == ins);
                for (kind, body) in &bodies {
                    let r = check_parse(en, &tys, own, c, ins, body);
                    n += 1;
                    if related {
                        nt += 1;
                    }
                    if own.is_some() {
                        st.class(&format!("owned-pair:{}", kind.split(':').next().unwrap()));
                    }
                    if r.is_err() {
                        ctx.record(r, st);
                    }
                    // the same packet with further bytes behind it in the buffer (the next packet, field-like bytes, random)
                    if own.is_some() {
                        let k = fnv(body) as usize;
                        let rnd: Vec<u8> = (0..(k % 9)).map(|j| (k >> (j * 7)) as u8).collect();
                        for tr in [&[0x19u8, 0x01][..], &[0x06, 0x0f, 0x00], &[0x04, 0xff, 0x01, 0x0b], &[0x06, 0x02, 0x27, 0x00], &rnd] {
                            if tr.is_empty() {
                                continue;
                            }
                            let r = check_parse_trailing(en, &tys, own, c, ins, body, tr);
                            n += 1;
                            nt += 1;
                            st.class("owned-pair:bytes-behind-the-packet");
                            if r.is_err() {
                                ctx.record(r, st);
                            }
                        }
                    }
                }
            }
        }
        st.enumerated(n, nt);
    });
    stats.merge(s);
    // received packets through a real exchange: every sequence x every form of the terminal's acknowledgement (empty, with a
    // data block that looks like a reply, extended length) x each reply of the command's reply set as the first packet: the
    // item handed to the caller is the parse of the packet that was sent (the C05 trace oracle, reported under C15 because
    // "no received packet can be mistaken for a different kind of reply" is this property's last sentence)
    {
        use crate::props::c05::{check_seq, Model, Pools, SeqCase, ACKS};
        let m = Model::new();
        let pools = Pools::build(&ctx, &m, 6, GenCfg::small());
        let s = ctx.shards("via-sequence", m.seqs.len() as u64, |i, _seed, st| {
            let s = &m.seqs[i as usize];
            let owned = m.owned(s);
            let cmd = hex(pools.pick(s.cmd, 0));
            let fin: Vec<usize> = (0..owned.len()).filter(|k| m.is_final(s, owned[*k].0, owned[*k].1)).collect();
            for (k, o) in owned.iter().enumerate() {
                for (ai, a) in ACKS.iter().enumerate() {
                    let mut replies = vec![hex(pools.pick(o.3, (k * 37 + ai) as u16 * 16))];
                    if !m.is_final(s, o.0, o.1) {
                        let Some(f) = fin.first() else { continue };
                        replies.push(hex(pools.pick(owned[*f].3, ai as u16 * 16)));
                    }
                    let c = SeqCase { seq: s.name.to_string(), cmd: cmd.clone(), replies, trailing: "061e016c".into(), chunks: if ai % 2 == 0 { vec![] } else { vec![1] }, ack: Some(a.to_string()), write_limit: if (k + ai) % 4 == 3 { Some(2) } else { None } };
                    st.case(ai > 0, fnv(&serde_json::to_vec(&c).unwrap()));
                    st.class("via-sequence:acknowledgement-form-x-first-reply");
                    ctx.record(
                        check_seq(&m, &c).map_err(|mut v| {
                            v.check = "via-sequence".into();
                            v.sig = v.sig.replacen("C05 ", "C15 via-sequence ", 1);
                            v
                        }),
                        st,
                    );
                }
            }
        });
        stats.merge(s);
    }
    // through the transport: a packet outside the reply set, in extended length form, whose data block starts with the image
    // of an owned packet, followed by a real owned packet: error, then that packet, then end of stream - the rejected
    // packet's data block is never read as packets
    let s = ctx.shards("transport", ens.len() as u64, |i, _seed, st| {
        let en = &ens[i as usize];
        let owned = &table.iter().find(|(e, _)| *e == en.name).expect("enum in table").1;
        let foreign: (u8, u8) = [(0x06u8, 0xd1u8), (0x0e, 0x0b), (0x06, 0xd3), (0x04, 0x01)].into_iter().find(|f| !owned.iter().any(|(c, k, _, _)| (*c, *k) == *f)).unwrap();
        let eseed = ctx.seed_for("transport-bodies", i);
        let mut images: Vec<(String, Vec<u8>)> = vec![];
        for (c, k, v, ty) in owned.iter() {
            let l = &t[*ty];
            for val in ctx.sample_values(eseed ^ fnv_str(ty), 3, &strategy_for(&t, ty, GenCfg::small())) {
                if is_canonical(&t, l, &val) {
                    let b = apdu_of(*c, *k, &enc_struct_body(&t, l, &val).unwrap());
                    if let Ok(d) = guard(|| (en.parse)(&b)) {
                        if let Ok(d) = d {
                            images.push((d, b));
                        }
                    }
                    let _ = v;
                }
            }
        }
        // two owned packets, one read interrupted (ErrorKind::Interrupted) at every offset of the first: the reader may report
        // the error or carry on correctly; what it returns as a packet must be a packet that was sent
        for (a, (want_a, img_a)) in images.iter().enumerate().take(6) {
            let (want_b, img_b) = &images[(a + 1) % images.len()];
            let mut stream = img_a.clone();
            stream.extend(img_b);
            for at in 0..img_a.len().min(40) {
                let got = guard(|| (en.read)(stream.clone(), 2, Some(at)));
                st.case(true, fnv(&stream) ^ (at as u64) << 40 ^ fnv_str(en.name));
                st.class("transport:one-read-interrupted");
                let ok = match &got {
                    Ok(r) => r.len() == 2 && (r[0].is_err() || (r[0].as_ref().ok() == Some(want_a) && (r[1].is_err() || r[1].as_ref().ok() == Some(want_b)))),
                    Err(_) => false,
                };
                if !ok {
                    let input = json!({"enum": en.name, "stream": hex(&stream), "interrupt_at": at, "first_len": img_a.len()});
                    ctx.record(Err(Violation::new("transport-interrupt", format!("C15 enum={} kind=packet-invented-after-interrupted-read", en.name), format!("stream {} (two packets), the read at offset {at} fails once with Interrupted\n  reads gave {:?}\n  expected an error, or the two packets {} / {}", clip(&hex(&stream), 120), got.as_ref().map(|r| r.iter().map(|x| x.as_ref().map(|s| clip(s, 80)).map_err(|e| clip(e, 60))).collect::<Vec<_>>()), clip(want_a, 80), clip(want_b, 80)), input)), st);
                }
            }
        }
        // a large owned packet (data block of 1 .. 5 KiB, extended length form) with two more owned packets already readable
        // behind it: each read returns exactly its packet
        let mut large: Vec<(String, Vec<u8>)> = vec![];
        for (c, k, _, ty) in owned.iter() {
            let l = &t[*ty];
            for (j, target) in [1100usize, 1500, 2049, 5000].iter().enumerate() {
                if let Some(base) = ctx.sample_values(eseed ^ fnv_str(ty) ^ (j as u64 + 77), 1, &strategy_for(&t, ty, GenCfg::small())).into_iter().next() {
                    if let Some(p) = pump(&t, l, &base, *target) {
                        if is_canonical(&t, l, &p) {
                            if let Ok(body) = enc_struct_body(&t, l, &p) {
                                if body.len() > 1024 && body.len() < 65536 {
                                    let b = apdu_of(*c, *k, &body);
                                    if let Ok(Ok(d)) = guard(|| (en.parse)(&b)) {
                                        large.push((d, b));
                                    }
                                }
                            }
                        }
                    }
                }
            }
        }
        for (a, (want_l, img_l)) in large.iter().enumerate() {
            if images.is_empty() {
                break;
            }
            let (want_b, img_b) = &images[a % images.len()];
            let (want_c, img_c) = &images[(a + 1) % images.len()];
            let mut stream = img_l.clone();
            stream.extend(img_b);
            stream.extend(img_c);
            let got = guard(|| (en.read)(stream.clone(), 4, None));
            st.case(true, fnv(&stream) ^ fnv_str(en.name));
            st.class("transport:large-packet-then-two-more-in-one-buffer");
            let ok = match &got {
                Ok(r) => r.len() == 4 && r[0].as_ref().ok() == Some(want_l) && r[1].as_ref().ok() == Some(want_b) && r[2].as_ref().ok() == Some(want_c) && r[3].is_err(),
                Err(_) => false,
            };
            if !ok {
                let input = json!({"enum": en.name, "stream": hex(&stream)});
                ctx.record(Err(Violation::new("transport-large", format!("C15 enum={} kind=packets-behind-a-large-packet-misread", en.name), format!("stream: a packet with a data block of {} bytes, then {} and {}\n  four reads gave {:?}\n  expected those three packets, then end of stream", img_l.len() - 5, clip(&hex(img_b), 60), clip(&hex(img_c), 60), got.as_ref().map(|r| r.iter().map(|x| x.as_ref().map(|s| clip(s, 60)).map_err(|e| clip(e, 60))).collect::<Vec<_>>())), input)), st);
            }
        }
        for (a, (_, img_a)) in images.iter().enumerate() {
            for (want, real) in images.iter().skip(a + 1).chain(images.iter().take(a)).take(3) {
                for pad in [255usize, 300, 1000] {
                    let mut body = img_a.clone();
                    body.resize(body.len().max(pad), 0);
                    let mut stream = vec![foreign.0, foreign.1, 0xff, body.len() as u8, (body.len() >> 8) as u8];
                    stream.extend(&body);
                    stream.extend(real);
                    let input = json!({"enum": en.name, "stream": hex(&stream)});
                    let got = guard(|| (en.read)(stream.clone(), 3, None));
                    st.case(true, fnv(&stream) ^ fnv_str(en.name));
                    st.class("transport:foreign-extended-packet-then-owned-packet");
                    let ok = match &got {
                        Ok(r) => r.len() == 3 && r[0].is_err() && r[1].as_ref().ok() == Some(want) && r[2].is_err(),
                        Err(_) => false,
                    };
                    if !ok {
                        ctx.record(Err(Violation::new("transport", format!("C15 enum={} kind=rejected-packet-body-read-as-packets", en.name), format!("stream: a {:02x} {:02x} packet ({} data bytes beginning with the image of an owned packet), then {}\n  three reads gave {:?}\n  expected [Err, Ok({}), Err]", foreign.0, foreign.1, body.len(), clip(&hex(real), 80), got.as_ref().map(|r| r.iter().map(|x| x.as_ref().map(|s| clip(s, 80)).map_err(|e| clip(e, 60))).collect::<Vec<_>>()), clip(want, 120)), input)), st);
                    }
                }
            }
        }
    });
    stats.merge(s);
    stats.exhaustive_parts = vec!["17 reply parsers x all 65 536 (class, instr) pairs, each with every prepared body".into()];
    ctx.finish(
        stats,
        "enumeration: every reply enum x every (class, instr) pair x bodies {empty, canonical bodies of each variant's packet type, random}, owned pairs also with further bytes behind the packet in the same buffer (a following packet, field-like bytes, random); plus inputs shorter than two bytes; plus, through PacketTransport::read_packet::<enum>, a foreign extended-length packet whose data block begins with the image of an owned packet, followed by an owned packet (error, that packet, end of stream), a large owned packet (data block 1 .. 5 KiB) with two more packets readable behind it in the same buffer, and two owned packets with one read interrupted at every offset of the first (an error, or exactly those packets); plus, through the real sequences, every form of the terminal's acknowledgement (empty / with a reply-like data block / extended length) in front of each reply of the reply set (trace oracle of C05). Oracle from an independent enum -> control field table: foreign pair => Err; owned pair => identical to the variant's packet type decoding the same bytes. non-trivial = pair owned by the enum or sharing class or instr with an owned pair; distinct by (enum, pair, body) by construction",
        &["registry::enum_table() (DESIGN.md Appendix B) is the independent statement of each command's reply set"],
        true,
    )
}
