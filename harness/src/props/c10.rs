//! C10 — no terminal stall or configuration value can hang a client call (virtual time).
use crate::engine::*;
use crate::scenario::*;
use crate::sim::*;
use proptest::prelude::*;
use serde_json::{json, Value};

const P: &str = "C10";

pub fn card_reply_hex() -> String {
    // status information with a UID and no application list: a membership card
    let t = crate::table();
    let tlv = make(&t, "tlv.StatusInformation", &[("uuid", opt_s(Some("04a1b2c3d4e5f6")))]);
    let si = make(&t, "StatusInformation", &[("result_code", opt_u(Some(0))), ("tlv", Val::Some(Box::new(tlv)))]);
    hex(&enc(&t, "StatusInformation", &si))
}
use crate::refc::Val;

/// sub-exchanges (retry-wrapped sequences) an operation may run
fn sub_exchanges(op: &str) -> f64 {
    match op {
        "new" | "configure" => 6.0,
        "commit" | "cancel" => 4.0,
        _ => 1.0,
    }
}
fn op_name(sc: &Scenario) -> &'static str {
    if sc.observe_new {
        return "new";
    }
    match sc.ops.last() {
        Some(Op::Configure) => "configure",
        Some(Op::Idle(_)) => "idle",
        Some(Op::ReadCard) => "read_card",
        Some(Op::Begin(_)) => "begin",
        Some(Op::Commit(..)) => "commit",
        Some(Op::Cancel(_)) => "cancel",
        None => "new",
    }
}
pub fn base_scenario(op: &str, cfg: CfgSpec) -> Scenario {
    let mut sc = Scenario { cfg, ..Default::default() };
    sc.sim.card_replies = vec![card_reply_hex()];
    match op {
        "new" => sc.observe_new = true,
        "configure" => sc.ops = vec![Op::Configure],
        "read_card" => sc.ops = vec![Op::ReadCard],
        "begin" => sc.ops = vec![Op::Begin("T1".into())],
        "commit" => {
            sc.setup = vec![Op::Begin("T1".into())];
            sc.ops = vec![Op::Commit("T1".into(), 1000)];
        }
        "cancel" => {
            sc.setup = vec![Op::Begin("T1".into())];
            sc.ops = vec![Op::Cancel("T1".into())];
        }
        _ => {}
    }
    if sc.cfg.max == 0 && (op == "commit" || op == "cancel" || op == "begin") {
        sc.cfg.max = 1;
    }
    sc
}

/// The call under observation returns, without panicking, within the bound.
pub fn check_returns(sc: &Scenario) -> CheckResult {
    let input = serde_json::to_value(sc).unwrap();
    let op = op_name(sc);
    let tr = guard(|| run_scenario(sc)).map_err(|p| Violation::new("returns", format!("C10 op={op} kind=harness-panic"), p, input.clone()))?;
    let t_packet = if op == "read_card" { sc.cfg.rct as f64 + 2.0 } else { 60.0 };
    // handshakes of reconnects run under the same per-packet time-out as the exchange that needs them
    // 20 attempts per sub-exchange; an attempt may spend one time-out on the connect, one on each half of the handshake
    // or one on the exchange itself: three per attempt is a generous finite bound that still separates "returns" from
    // "hangs" (which runs into the one-virtual-day watchdog)
    let bound = sub_exchanges(op) * 20.0 * 3.0 * (t_packet.max(60.0) + 2.0) + 1.0;
    let stall_desc = || format!("plan {:?} connect {:?}/{:?}", sc.plan.iter().map(|p| (p.kind, p.occ, p.directive.fault, p.directive.delay)).collect::<Vec<_>>(), sc.connect_plan, sc.connect_default);
    if sc.observe_new {
        if !tr.new_returned {
            return Err(Violation::new("returns", format!("C10 op=new kind={}", if tr.new_elapsed >= 86_399.0 { "does-not-return" } else { "panic-or-error" }), format!("Feig::new did not return within one virtual day ({:.0} s elapsed); {}", tr.new_elapsed, stall_desc()), input));
        }
        if tr.new_elapsed > bound {
            return Err(Violation::new("returns", "C10 op=new kind=exceeds-bound".to_string(), format!("Feig::new took {:.0} virtual seconds, bound {bound:.0}; {}", tr.new_elapsed, stall_desc()), input));
        }
        return Ok(());
    }
    if !tr.new_returned {
        return Ok(()); // set-up is fault free; cannot happen on a sound tree, and is reported by the op=new cases
    }
    let Some(c) = tr.calls.last() else { return Ok(()) };
    if let Some(p) = &c.panicked {
        let cfgsig = if op == "read_card" && sc.cfg.rct >= 254 { format!(" cfg.read_card_timeout={}", sc.cfg.rct) } else { String::new() };
        return Err(Violation::new("returns", format!("C10 op={op}{cfgsig} kind=panic"), format!("{op} panicked: {p}; config {:?}; {}", sc.cfg, stall_desc()), input));
    }
    if c.result.is_none() {
        return Err(Violation::new("returns", format!("C10 op={op} kind=does-not-return"), format!("{op} did not return within one virtual day; {}", stall_desc()), input));
    }
    if c.elapsed > bound {
        return Err(Violation::new("returns", format!("C10 op={op} kind=exceeds-bound"), format!("{op} took {:.0} virtual seconds, bound {bound:.0}; {}", c.elapsed, stall_desc()), input));
    }
    Ok(())
}

/// No collapse: a terminal that answers `rct + 1` s after its ack is still waited for (no reconnect, success).
pub fn check_no_collapse(rct: u8) -> CheckResult {
    let mut sc = base_scenario("read_card", CfgSpec { rct, ..Default::default() });
    sc.plan = vec![PlanEntry { kind: Kind::ReadCard, occ: Some(0), from_start: false, directive: Directive { delay: Some((1, rct as u64 + 1)), ..Default::default() } }];
    let input = json!({"rct": rct});
    let tr = guard(|| run_scenario(&sc)).map_err(|p| Violation::new("collapse", "C10 op=read_card kind=harness-panic".to_string(), p, input.clone()))?;
    let Some(c) = tr.calls.last() else { return Ok(()) };
    let cfgsig = if rct >= 254 { format!(" cfg.read_card_timeout={rct}") } else { String::new() };
    if let Some(p) = &c.panicked {
        return Err(Violation::new("collapse", format!("C10 op=read_card{cfgsig} kind=panic"), format!("read_card with read_card_timeout={rct} panicked: {p}"), input));
    }
    let conns = tr.world.sim.lock().unwrap().conns;
    match &c.result {
        Some(Ok(Ret::Card(Some(_)))) if conns == tr.conns_before => Ok(()),
        other => Err(Violation::new(
            "collapse",
            format!("C10 op=read_card{cfgsig} kind=timeout-collapsed"),
            format!("read_card_timeout={rct}: the terminal answered {} s after its acknowledgement (inside the configured window); result {:?}, {} reconnects, {:.0} s elapsed", rct as u64 + 1, other, conns - tr.conns_before, c.elapsed),
            input,
        )),
    }
}

pub fn replay(check: &str, i: &Value) -> Option<CheckResult> {
    Some(match check {
        "returns" => check_returns(&serde_json::from_value(i.clone()).ok()?),
        "collapse" => check_no_collapse(i.get("rct")?.as_u64()? as u8),
        _ => return None,
    })
}

pub const OPS: [&str; 6] = ["new", "configure", "read_card", "begin", "commit", "cancel"];

/// Terminal transcript of the fault-free run of an operation: (kind, occurrence, packets) per request.
pub fn dry_run(op: &str, cfg: &CfgSpec) -> Vec<(Kind, usize, usize)> {
    dry_run_with(op, cfg, None)
}
pub fn dry_run_with(op: &str, cfg: &CfgSpec, dangling: Option<u64>) -> Vec<(Kind, usize, usize)> {
    let mut sc = base_scenario(op, cfg.clone());
    sc.sim.intermediates = 1;
    sc.sim.dangling = dangling;
    let tr = run_scenario(&sc);
    if sc.observe_new {
        transcript(&tr, tr.new_reqs.0, tr.new_reqs.1)
    } else {
        match tr.calls.last() {
            Some(c) => transcript(&tr, c.req_from, c.req_to),
            None => vec![],
        }
    }
}

/// intermediate status packets a terminal may send: time-out byte 0 (captured traffic), absent, and non-zero announcements
pub const INTERMEDIATES: [&str; 5] = ["04ff021700", "04ff0117", "04ff021799", "04ff021702", "04ff02ff01"];

pub fn stall_scenarios(op: &str, cfg: &CfgSpec) -> Vec<(Scenario, bool)> {
    stall_scenarios_with(op, cfg, None)
}
pub fn stall_scenarios_with(op: &str, cfg: &CfgSpec, intermediate: Option<&str>) -> Vec<(Scenario, bool)> {
    stall_scenarios_full(op, cfg, intermediate, None)
}
/// `dangling`: the terminal holds a pre-authorisation no token knows about, so the clean-up (pending query, reversal of the
/// reported receipt, end-of-day) has a reversal exchange in which it can stall as well
pub fn stall_scenarios_full(op: &str, cfg: &CfgSpec, intermediate: Option<&str>, dangling: Option<u64>) -> Vec<(Scenario, bool)> {
    let mut out = vec![];
    let script = dry_run_with(op, cfg, dangling);
    let mk = |plan: Vec<PlanEntry>, connect_plan: Vec<ConnectBehaviour>, connect_default: ConnectBehaviour| {
        let mut sc = base_scenario(op, cfg.clone());
        sc.sim.intermediates = 1;
        sc.sim.intermediate_body = intermediate.map(|s| s.to_string());
        sc.sim.dangling = dangling;
        sc.plan = plan;
        sc.connect_plan = connect_plan;
        sc.connect_default = connect_default;
        sc
    };
    let from_start = op == "new";
    for (kind, occ, packets) in &script {
        for pos in 0..*packets {
            for fk in [FaultKind::Silence, FaultKind::HeaderThenSilence] {
                for always in [false, true] {
                    let d = Directive { fault: Some((fk, pos)), ..Default::default() };
                    let handshake = matches!(kind, Kind::Registration) || (*kind == Kind::SystemInfo && from_start && *occ == 0);
                    out.push((mk(vec![PlanEntry { kind: *kind, occ: if always { None } else { Some(*occ) }, from_start, directive: d }], vec![], ConnectBehaviour::Accept), handshake || pos >= 1));
                }
            }
        }
    }
    // stalls inside the handshake of a reconnect: the first exchange of the operation loses its connection,
    // then the new connection's Registration / system-info / connect stalls (once and forever)
    if let Some((k0, o0, _)) = script.iter().find(|(k, _, _)| *k != Kind::Registration && !(from_start && *k == Kind::SystemInfo)).cloned().or(script.first().cloned()) {
        let close = PlanEntry { kind: k0, occ: Some(o0), from_start, directive: Directive { fault: Some((FaultKind::Close, 0)), ..Default::default() } };
        for (hk, hocc) in [(Kind::Registration, if from_start { 1 } else { 0 }), (Kind::SystemInfo, if from_start { 2 } else { 0 })] {
            for pos in 0..2 {
                for always in [false, true] {
                    let d = Directive { fault: Some((FaultKind::Silence, pos)), ..Default::default() };
                    if always && from_start {
                        continue; // "always" would already stall the first handshake: covered by the transcript positions above
                    }
                    out.push((mk(vec![close.clone(), PlanEntry { kind: hk, occ: if always { None } else { Some(hocc) }, from_start, directive: d }], vec![], ConnectBehaviour::Accept), true));
                }
            }
        }
        // the connect itself never completes
        let pre = if from_start { vec![] } else { vec![] };
        let mut once = pre.clone();
        once.push(ConnectBehaviour::Stall);
        if from_start {
            out.push((mk(vec![], once, ConnectBehaviour::Accept), true));
            out.push((mk(vec![], vec![], ConnectBehaviour::Stall), true));
            out.push((mk(vec![], vec![], ConnectBehaviour::Refuse), true));
        } else {
            out.push((mk(vec![close.clone()], once, ConnectBehaviour::Accept), true));
            out.push((mk(vec![close.clone()], vec![], ConnectBehaviour::Stall), true));
            out.push((mk(vec![close.clone()], vec![], ConnectBehaviour::Refuse), true));
        }
    }
    out
}

pub fn run(tier: Tier) -> i32 {
    let ctx = Ctx::new(P, "fault_enumeration", tier);
    let mut stats = Stats::new();
    stats.sample_cap = 8;
    crate::run_regressions(&ctx, &mut stats, replay);
    // 1. a stall at every position of every exchange of every operation (default configuration, terminal id differs so
    //    that SetTerminalId is part of the transcript)
    let cfg0 = CfgSpec { terminal_id: "11112222".into(), ..Default::default() };
    let s = ctx.shards("stalls", OPS.len() as u64, |i, _seed, st| {
        let op = OPS[i as usize];
        for (bi, body) in INTERMEDIATES.iter().enumerate() {
            let scs = stall_scenarios_with(op, &cfg0, if bi == 0 { None } else { Some(body) });
            for (k, (sc, nt)) in scs.iter().enumerate() {
                st.case(*nt, fnv(&serde_json::to_vec(sc).unwrap()));
                st.class(&format!("stall:{op}"));
                if bi > 0 {
                    st.class(&format!("stall:intermediate-status={body}"));
                }
                if k == 5 && bi == 0 {
                    st.sample(|| json!({"op": op, "plan": sc.plan, "connect_plan": sc.connect_plan, "connect_default": sc.connect_default}));
                }
                ctx.record(check_returns(sc), st);
            }
        }
    });
    stats.merge(s);
    // 1b. the same with a dangling pre-authorisation in the terminal (the clean-up then contains a reversal exchange)
    let s = ctx.shards("stalls-dangling", OPS.len() as u64, |i, _seed, st| {
        let op = OPS[i as usize];
        if matches!(op, "read_card" | "begin") {
            return;
        }
        for (sc, nt) in stall_scenarios_full(op, &cfg0, None, Some(4242)).iter() {
            st.case(*nt, fnv(&serde_json::to_vec(sc).unwrap()));
            st.class(&format!("stall-with-dangling-pre-authorisation:{op}"));
            ctx.record(check_returns(sc), st);
        }
    });
    stats.merge(s);
    // 1b'. the same stalls with a very large / unlimited number of concurrent transactions configured
    let s = ctx.shards("stalls-max-transactions", OPS.len() as u64 * 3, |i, _seed, st| {
        let op = OPS[(i / 3) as usize];
        let max = [7usize, 100_000, usize::MAX][(i % 3) as usize];
        let cfg = CfgSpec { max, ..cfg0.clone() };
        for (sc, nt) in stall_scenarios_full(op, &cfg, None, None).iter() {
            st.case(*nt, fnv(&serde_json::to_vec(sc).unwrap()));
            st.class(&format!("stall-with-max-transactions={}", if max == usize::MAX { "usize::MAX".to_string() } else { max.to_string() }));
            ctx.record(check_returns(sc), st);
        }
    });
    stats.merge(s);
    // 1c. attempts that last a fractional number of seconds: the packet in front of the stall is delayed by 1 .. 2500 ms, so the
    //     failed attempt ends 60.001 / 2.25 / 3.5 ... s after it began (on a paused clock every other duration is a whole second)
    let s = ctx.shards("stalls-subsecond", OPS.len() as u64, |i, _seed, st| {
        let op = OPS[i as usize];
        for rct in [15u8, 0, 1] {
            if rct != 15 && op != "read_card" {
                continue;
            }
            let cfg = CfgSpec { rct, ..cfg0.clone() };
            let script = dry_run(op, &cfg);
            let from_start = op == "new";
            for (kind, occ, packets) in &script {
                for pos in 1..*packets {
                    for ms in [1u64, 250, 999, 1001, 2500] {
                        for always in [false, true] {
                            let mut sc = base_scenario(op, cfg.clone());
                            sc.sim.intermediates = 1;
                            sc.plan = vec![PlanEntry { kind: *kind, occ: if always { None } else { Some(*occ) }, from_start, directive: Directive { fault: Some((FaultKind::Silence, pos)), delay_ms: Some((pos - 1, ms)), ..Default::default() } }];
                            st.case(true, fnv(&serde_json::to_vec(&sc).unwrap()));
                            st.class(&format!("stall-after-a-sub-second-delay:{op}"));
                            ctx.record(check_returns(&sc), st);
                        }
                    }
                }
            }
        }
    });
    stats.merge(s);
    // 1d. between two calls the terminal begins a late packet on the idle connection (a few stray bytes) and falls silent,
    //     keeping the connection open: the next call meets a partial packet and must still return
    let s = ctx.shards("stray-bytes", OPS.len() as u64, |i, _seed, st| {
        let op = OPS[i as usize];
        if op == "new" {
            return;
        }
        for stray in [vec![0x06u8], vec![0x06, 0xd1], vec![0x06, 0xd1, 0x05, 0x00], vec![0x04, 0xff, 0x02, 0x17], vec![0x80, 0x00], vec![0x06, 0xd1, 0xff, 0x00], vec![0x06, 0xd1, 0x02, 0x00, 0x41]] {
            let mut sc = base_scenario(op, cfg0.clone());
            sc.ops.insert(0, Op::ReadCard);
            sc.ops.insert(1, Op::Idle(100));
            sc.plan = vec![PlanEntry { kind: Kind::ReadCard, occ: Some(0), from_start: false, directive: Directive { stray_after: Some(stray.clone()), ..Default::default() } }];
            st.case(true, fnv(&serde_json::to_vec(&sc).unwrap()));
            st.class(&format!("stray-bytes-on-the-idle-connection:{op}"));
            ctx.record(check_returns(&sc), st);
        }
    });
    stats.merge(s);
    // 2. read_card_timeout 0..=255 exhaustively: plain call, silent terminal, and "answers at t+1" (no collapse)
    let s = ctx.shards("rct", 16, |i, _seed, st| {
        let mut t = i as u32;
        while t <= 255 {
            let rct = t as u8;
            let nt = matches!(rct, 0 | 253 | 254 | 255);
            let cfg = CfgSpec { rct, ..Default::default() };
            let plain = base_scenario("read_card", cfg.clone());
            st.case(nt, fnv_str(&format!("rct-plain-{rct}")));
            ctx.record(check_returns(&plain), st);
            let mut silent = base_scenario("read_card", cfg.clone());
            silent.plan = vec![PlanEntry { kind: Kind::ReadCard, occ: None, from_start: false, directive: Directive { fault: Some((FaultKind::Silence, 1)), ..Default::default() } }];
            st.case(true, fnv_str(&format!("rct-silent-{rct}")));
            ctx.record(check_returns(&silent), st);
            st.case(nt, fnv_str(&format!("rct-collapse-{rct}")));
            st.class("read_card_timeout");
            ctx.record(check_no_collapse(rct), st);
            t += 16;
        }
    });
    stats.merge(s);
    stats.sample(|| json!({"check": "no-collapse", "read_card_timeout": 254, "terminal": "status information 255 s after the acknowledgement", "expect": "Ok(MembershipCard), no reconnect"}));
    // 3. configuration extremes x sampled stalls
    let n: u32 = tier.pick(6_000, 100_000);
    let s = ctx.shards("sampled", 16, |_i, seed, st| {
        let cfg = (
            prop_oneof![Just(String::new()), Just("52523535".to_string()), Just("11112222".to_string()), Just("00000000".to_string())],
            prop_oneof![Just(0u64), Just(999_999), 0u64..=999_999],
            prop_oneof![Just(978u64), Just(826), Just(752), Just(0), Just(9999)],
            prop_oneof![Just(0u64), Just(999_999_999_999), 0u64..=999_999_999_999],
            any::<u8>(),
            // "no limit" style values included: no configuration value may enter a time-out computation unbounded
            prop_oneof![4 => 0usize..=3, 1 => Just(7usize), 1 => Just(100_000usize), 1 => Just(u32::MAX as usize), 1 => Just(u32::MAX as usize + 1), 1 => Just(usize::MAX)],
        )
            .prop_map(|(terminal_id, password, currency, amount, rct, max)| CfgSpec { terminal_id, serial: "17FD1E3C".into(), password, currency, amount, rct, max });
        let strat = (cfg, 0usize..6, any::<u16>(), any::<bool>(), 0usize..INTERMEDIATES.len(), proptest::option::weighted(0.3, 1u64..=9999));
        ctx.proptest(seed, n / 16, &strat, st, |(cfg, opi, sel, none, bi, dangling), st| {
            let op = OPS[*opi];
            let scs = stall_scenarios_full(op, cfg, if *bi == 0 { None } else { Some(INTERMEDIATES[*bi]) }, *dangling);
            let (sc, nt) = if *none || scs.is_empty() { (base_scenario(op, cfg.clone()), false) } else { scs[(*sel as usize * scs.len()) >> 16].clone() };
            st.case(nt, fnv(&serde_json::to_vec(&sc).unwrap()));
            st.class(&format!("sampled:{op}"));
            check_returns(&sc)
        });
    });
    stats.merge(s);
    stats.exhaustive_parts = vec!["every packet position (ack and each reply, header-only variant, once / on every attempt) of every exchange in the fault-free transcript of each of the 6 operations, plus stalls in the handshake of a forced reconnect and in connect()".into(), "read_card_timeout 0..=255 x {plain, silent terminal, answer at t+1}".into()];
    ctx.finish(
        stats,
        "the real Feig client against the simulated terminal on tokio's paused clock. Positions come from a fault-free dry run of each operation (handshake included); one stall {silence, packet header then silence} x {once, on every attempt} per position, also after the terminal left the beginning of a late packet on the idle connection between two calls, also behind a packet delayed by 1 / 250 / 999 / 1001 / 2500 ms (attempts of fractional length), also with a dangling pre-authorisation in the terminal (stalls inside the clean-up's reversal exchange), each with the terminal's intermediate status carrying time-out byte 00 / absent / 99 / 02 / status ff; stalls in the handshake of a forced reconnect; connect() never completing / refused; read_card_timeout 0..=255 exhaustively incl. a terminal answering t+1 s after its ack; every stall again with max transactions 7 / 100 000 / usize::MAX; proptest-sampled configurations (password, currency, amount, terminal id, max transactions incl. 2^32 and usize::MAX) x stalls. Oracle: under a one-virtual-day watchdog the call returns, without panic, within S(op)*20*3*(T+2) virtual seconds, and a timeout inside the configured window does not abandon the exchange. non-trivial = stall inside a handshake or at a reply position >= 1, or read_card_timeout in {0,253,254,255}; distinct by scenario",
        &["time is tokio's paused clock: 'does not return' is decided in virtual time, never by wall clock", "a terminal that keeps sending a packet every 59 s forever is not a stall in the property's sense and is not generated", "in-memory duplex streams; only the current_thread runtime is explored (Feig is driven through &mut self and spawns nothing)"],
        false,
    )
}
