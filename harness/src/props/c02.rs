//! C02 — decoding is total: arbitrary bytes give a value or an error, never a panic, wrapped number,
//! runaway allocation; debug and release builds decode identically.
use crate::alloc::measured;
use crate::engine::*;
use crate::gen::*;
use crate::refc::*;
use crate::registry::*;
use crate::tree::*;
use proptest::prelude::*;
use serde_json::{json, Value};
use std::sync::Arc;

const P: &str = "C02";
/// hard per-call cap (allocator aborts the run with a VIOLATION)
const HARD_CAP: usize = 512 << 20;
/// soft bound per call: `SOFT_MUL * len + SOFT_ADD` bytes (measured on the unchanged tree: at most 21 * len, 11.7 KB absolute)
const SOFT_MUL: usize = 200;
const SOFT_ADD: usize = 16 << 10;

pub static MAX_ALLOC: std::sync::atomic::AtomicUsize = std::sync::atomic::AtomicUsize::new(0);
pub static MAX_ALLOC_RATIO: std::sync::atomic::AtomicUsize = std::sync::atomic::AtomicUsize::new(0);

pub struct Decoders {
    pub t: Arc<Table>,
    pub tys: Vec<TypeEntry>,
    pub ens: Vec<EnumEntry>,
    pub etab: Vec<(&'static str, Vec<(u8, u8, &'static str, &'static str)>)>,
}
impl Decoders {
    pub fn new() -> Self {
        Decoders { t: crate::table(), tys: types(), ens: enums(), etab: enum_table() }
    }
    pub fn n(&self) -> usize {
        self.tys.len() + self.ens.len()
    }
    pub fn name(&self, i: usize) -> String {
        if i < self.tys.len() {
            self.tys[i].name.to_string()
        } else {
            format!("enum:{}", self.ens[i - self.tys.len()].name)
        }
    }
    pub fn index_of(&self, name: &str) -> Option<usize> {
        (0..self.n()).find(|i| self.name(*i) == name)
    }
    fn quiet(&self, i: usize, b: &[u8]) -> Result<usize, zvt::ZVTError> {
        if i < self.tys.len() {
            (self.tys[i].quiet)(b)
        } else {
            (self.ens[i - self.tys.len()].quiet)(b).map(|_| 0)
        }
    }
    pub fn outcome(&self, i: usize, b: &[u8]) -> String {
        let r = guard(|| {
            if i < self.tys.len() {
                match (self.tys[i].decode)(b) {
                    Ok((d, rest)) => format!("Ok({d}) rest={rest}"),
                    Err(e) => format!("Err({e:?})"),
                }
            } else {
                match (self.ens[i - self.tys.len()].parse)(b) {
                    Ok(d) => format!("Ok({d})"),
                    Err(e) => format!("Err({e:?})"),
                }
            }
        });
        match r {
            Ok(s) => s,
            Err(p) => format!("PANIC({})", normalize(&p)),
        }
    }
    /// the decoder gets past its first branch (control field / non-empty input)
    pub fn past_first_branch(&self, i: usize, b: &[u8]) -> bool {
        if i < self.tys.len() {
            match self.t[self.tys[i].name].ctrl {
                Some((c, k)) => b.len() >= 3 && b[0] == c && b[1] == k,
                None => !b.is_empty(),
            }
        } else {
            let owned = &self.etab.iter().find(|(n, _)| *n == self.ens[i - self.tys.len()].name).unwrap().1;
            b.len() >= 3 && owned.iter().any(|(c, k, _, _)| *c == b[0] && *k == b[1])
        }
    }
}

fn normalize(p: &str) -> String {
    let mut o = String::new();
    let mut in_num = false;
    for c in p.chars().take(90) {
        if c.is_ascii_digit() {
            if !in_num {
                o.push('N');
            }
            in_num = true;
        } else {
            in_num = false;
            o.push(c);
        }
    }
    o
}

/// One decode under the totality oracle. `diff`: also compare with the reference decoder when both accept.
pub fn check_decode(d: &Decoders, i: usize, b: &[u8], diff: bool) -> CheckResult {
    let name = d.name(i);
    let input = || json!({"decoder": name, "bytes": hex(b)});
    let (res, allocated) = measured(b, i, HARD_CAP, || guard(|| d.quiet(i, b)));
    let res = res.map_err(|p| Violation::new("decode", format!("C02 kind=panic msg={}", normalize(&p)), format!("decoder {name} on {} panicked: {p}", clip(&hex(b), 400)), input()))?;
    MAX_ALLOC.fetch_max(allocated, std::sync::atomic::Ordering::Relaxed);
    if b.len() >= 16 {
        MAX_ALLOC_RATIO.fetch_max(allocated / b.len(), std::sync::atomic::Ordering::Relaxed);
    }
    if allocated > SOFT_MUL * b.len() + SOFT_ADD {
        return Err(Violation::new("decode", format!("C02 decoder={name} kind=allocation"), format!("decoding {} input bytes allocated {allocated} bytes (bound {} * len + {})", b.len(), SOFT_MUL, SOFT_ADD), input()));
    }
    if let Ok(rest) = res {
        if rest == usize::MAX || rest > b.len() {
            return Err(Violation::new("decode", format!("C02 decoder={name} kind=remainder-not-a-suffix"), format!("decoder {name} on {} returned a remainder that is not a suffix of the input", clip(&hex(b), 400)), input()));
        }
        if diff && i < d.tys.len() {
            let exact = decode(&d.t, &d.t[d.tys[i].name], b);
            // a number that does not fit its field (BCD digits beyond the integer, an impossible date / time) is an error
            // for the exact reading: accepting the packet means the number was wrapped or truncated into range
            if let Err(DErr::Bad(why)) = &exact {
                if why == "bcd overflow" || why == "calendar" {
                    return Err(Violation::new("decode", format!("C02 decoder={name} kind=accepts-number-that-does-not-fit"), format!("decoder {name} on {}\n  gives  {}\n  the exact (u128, independent) reading rejects the packet: {why}", clip(&hex(b), 400), clip(&d.outcome(i, b), 500)), input()));
                }
            }
            if let Ok((rv, rrest)) = exact {
                let real = d.outcome(i, b);
                let want = format!("Ok({}) rest={}", render(&rv), rrest.len());
                if real != want {
                    return Err(Violation::new("decode", format!("C02 decoder={name} kind=differs-from-exact-reading"), format!("decoder {name} on {}\n  gives  {}\n  the exact (u128, independent) reading is {}", clip(&hex(b), 400), clip(&real, 500), clip(&want, 500)), input()));
                }
            }
        }
    }
    Ok(())
}

pub fn replay(check: &str, i: &Value) -> Option<CheckResult> {
    let d = Decoders::new();
    match check {
        "decode" => {
            let idx = match i.get("decoder").and_then(|v| v.as_str()) {
                Some(n) => d.index_of(n)?,
                None => i.get("decoder_index")?.as_u64()? as usize,
            };
            Some(check_decode(&d, idx, &unhex(i.get("bytes")?.as_str()?), true))
        }
        "buildmode" => {
            let idx = d.index_of(i.get("decoder")?.as_str()?)?;
            let b = unhex(i.get("bytes")?.as_str()?);
            Some(check_buildmode(&d, idx, &b))
        }
        _ => None,
    }
}

// ------------------------------------------------------------------------------------------------
// corpus

#[derive(Clone, serde::Serialize, serde::Deserialize)]
pub struct Entry {
    pub ty: usize,
    pub label: String,
    pub bytes: Vec<u8>,
}

pub fn build_corpus(ctx: &Ctx, d: &Decoders, k: usize) -> Vec<Entry> {
    let mut out = vec![];
    for (f, ty, b) in crate::props::c01::load_captures() {
        out.push(Entry { ty: d.tys.iter().position(|e| e.name == ty).unwrap(), label: format!("capture:{f}"), bytes: b });
    }
    // the one capture the repository's tests do not name
    if let Ok(b) = std::fs::read("/repo/zvt/data/1680728165.827009000_pt_ecr.blob") {
        if b.len() >= 2 {
            if let Some(ty) = d.tys.iter().position(|e| d.t[e.name].ctrl == Some((b[0], b[1]))) {
                out.push(Entry { ty, label: "capture:1680728165.827009000_pt_ecr.blob".into(), bytes: b });
            }
        }
    }
    for (ti, e) in d.tys.iter().enumerate() {
        let l = &d.t[e.name];
        let vals = ctx.sample_values(ctx.seed_for("corpus", ti as u64), k * 3, &strategy_for(&d.t, e.name, GenCfg { vec_max: 3, text_max: 40, blob_max: 40 }));
        let mut n = 0;
        for (j, v) in vals.into_iter().enumerate() {
            if n >= k {
                break;
            }
            let v = if j % 3 == 2 { pump(&d.t, l, &v, 255).unwrap_or(v) } else { v };
            if !is_canonical(&d.t, l, &v) {
                continue;
            }
            out.push(Entry { ty: ti, label: format!("generated:{}#{j}", e.name), bytes: encode(&d.t, l, &v).unwrap() });
            n += 1;
        }
    }
    out
}

pub const BOUNDARY: [u8; 20] = [0x00, 0x01, 0x0f, 0x10, 0x1e, 0x1f, 0x20, 0x7f, 0x80, 0x81, 0x82, 0x83, 0x99, 0x9a, 0xa0, 0xf0, 0xf9, 0xfa, 0xfe, 0xff];

/// Deterministic mutants of a corpus entry (layer 2): index -> bytes. Truncations first, then substitutions.
pub fn mutant(b: &[u8], idx: usize, all256: bool) -> Option<Vec<u8>> {
    if idx < b.len() {
        return Some(b[..idx].to_vec());
    }
    let idx = idx - b.len();
    let per = if all256 { 256 } else { BOUNDARY.len() + 4 };
    let (off, k) = (idx / per, idx % per);
    if off >= b.len() {
        return None;
    }
    let orig = b[off];
    let v = if all256 {
        k as u8
    } else if k < BOUNDARY.len() {
        BOUNDARY[k]
    } else {
        match k - BOUNDARY.len() {
            0 => orig.wrapping_add(1),
            1 => orig.wrapping_sub(1),
            2 => orig ^ 0x80,
            _ => orig ^ 0x0f,
        }
    };
    let mut m = b.to_vec();
    m[off] = v;
    Some(m)
}
pub fn mutant_count(b: &[u8], all256: bool) -> usize {
    b.len() + b.len() * if all256 { 256 } else { BOUNDARY.len() + 4 }
}

/// Layer 1 inputs for a decoder: index -> bytes.
pub fn small_input(d: &Decoders, dec: usize, idx: usize) -> Option<Vec<u8>> {
    let ctrl = if dec < d.tys.len() { d.t[d.tys[dec].name].ctrl } else { None };
    // body of length 0, 1, 2
    let body = |k: usize| -> Option<Vec<u8>> {
        match k {
            0 => Some(vec![]),
            1..=256 => Some(vec![(k - 1) as u8]),
            257..=65792 => Some(vec![((k - 257) >> 8) as u8, ((k - 257) & 0xff) as u8]),
            _ => None,
        }
    };
    match ctrl {
        Some((c, i)) => {
            // correct length and both off-by-one lengths
            let (k, variant) = (idx / 3, idx % 3);
            let b = body(k)?;
            let len = match variant {
                0 => b.len() as i32,
                1 => b.len() as i32 - 1,
                _ => b.len() as i32 + 1,
            };
            if len < 0 {
                return Some(vec![c, i]);
            }
            let mut o = vec![c, i, len as u8];
            o.extend(b);
            Some(o)
        }
        None => body(idx),
    }
}

/// Which decoders a corpus entry is fed to: its own, every reply parser, and `cross` other types
/// (non-command types take any bytes; command types get the control field patched so that they get past the first check).
fn decoders_for(d: &Decoders, e: &Entry, ei: usize, cross: usize) -> Vec<(usize, Option<(u8, u8)>)> {
    let mut v: Vec<(usize, Option<(u8, u8)>)> = vec![(e.ty, None)];
    for k in 0..d.ens.len() {
        v.push((d.tys.len() + k, None));
    }
    let n = d.tys.len();
    for k in 0..cross {
        let o = (e.ty + 1 + (ei * 7 + k * 11) % (n - 1)) % n;
        if o == e.ty {
            continue;
        }
        v.push((o, d.t[d.tys[o].name].ctrl));
    }
    v
}
fn patched(b: &[u8], ctrl: Option<(u8, u8)>, own_is_cmd: bool) -> Vec<u8> {
    match ctrl {
        Some((c, i)) if own_is_cmd && b.len() >= 2 => {
            let mut m = b.to_vec();
            m[0] = c;
            m[1] = i;
            m
        }
        Some((c, i)) => {
            // wrap foreign bytes into an APDU of that command
            apdu(c, i, &b[..b.len().min(65535)]).unwrap_or_else(|_| b.to_vec())
        }
        None => b.to_vec(),
    }
}

// ------------------------------------------------------------------------------------------------
// layer 3: structure-aware mutations

#[derive(Clone, Debug)]
pub struct Mutation {
    pub kind: u8,
    pub sel: u16,
    pub a: u16,
    pub b: u16,
    pub bytes: Vec<u8>,
}
fn pick(sel: u16, n: usize) -> usize {
    (sel as usize * n) >> 16
}
fn all_elem_paths(gs: &[Group]) -> Vec<(Path, usize, usize)> {
    let mut out = vec![];
    for (path, _) in levels(gs) {
        for (gi, g) in level(gs, &path).iter().enumerate() {
            for ei in 0..g.elems.len() {
                out.push((path.clone(), gi, ei));
            }
        }
    }
    out
}
fn payload_len(e: &Elem) -> usize {
    match &e.node {
        Node::Leaf(b) => b.len(),
        Node::Struct(g) => assemble(g).len(),
    }
}
pub fn apply_mutation(t: &Table, l: &Layout, v: &Val, m: &Mutation, pool: &[Vec<u8>]) -> (Vec<u8>, &'static str) {
    let mut gs = build(t, l, v).expect("canonical");
    let elems = all_elem_paths(&gs);
    let mut class = "none";
    let top = |gs: &[Group]| assemble_top(l, gs).unwrap_or_else(|| assemble(gs));
    if elems.is_empty() && m.kind < 7 {
        return (top(&gs), class);
    }
    match m.kind {
        0 | 1 => {
            let (path, gi, ei) = elems[pick(m.sel, elems.len())].clone();
            let el = &mut level_mut(&mut gs, &path)[gi].elems[ei];
            let n = payload_len(el);
            if m.kind == 0 {
                class = "length-announce";
                el.announce = Some(match m.a % 8 {
                    0 => 0,
                    1 => n.saturating_sub(1),
                    2 => n + 1,
                    3 => n + 2,
                    4 => 255,
                    5 => 65535,
                    6 => m.b as usize,
                    _ => n / 2,
                });
            } else {
                class = "length-form";
                let (hi, lo) = ((n >> 8) as u8, n as u8);
                el.prefix_override = Some(match m.a % 9 {
                    0 => vec![0x81, lo],
                    1 => vec![0x82, hi, lo],
                    2 => vec![0x82, lo],
                    3 => vec![0x83, 0, hi, lo],
                    4 => vec![0x80],
                    5 => vec![0xff],
                    6 => vec![0x81],
                    7 => vec![0x84, m.b as u8, (m.b >> 8) as u8],
                    _ => vec![0x82],
                });
            }
        }
        2 => {
            // BCD payload -> 1..40 arbitrary digit bytes (non-decimal nibbles and F fillers included)
            let bcd: Vec<_> = elems.iter().filter(|(p, gi, _)| matches!(level(&gs, p)[*gi].enc, Enc::Bcd(_) | Enc::ReceiptNo)).cloned().collect();
            if !bcd.is_empty() {
                class = "digit-overflow";
                let (path, gi, ei) = bcd[pick(m.sel, bcd.len())].clone();
                let last = m.bytes.first().copied().unwrap_or(0xee);
                let digits: Vec<u8> = match m.a % 9 {
                    // leading digits at MAX / 10 (odd digit counts, F-padded spellings), then an arbitrary last byte
                    8 => match m.b % 4 {
                        0 => vec![0x25, last],
                        1 => vec![0x65, 0x53, last],
                        2 => vec![0x04, 0x29, 0x49, 0x67, 0x29, last],
                        _ => vec![0x01, 0x84, 0x46, 0x74, 0x40, 0x73, 0x70, 0x95, 0x51, 0x61, last],
                    },
                    // ... and of a u128 accumulator
                    7 => vec![0x03, 0x40, 0x28, 0x23, 0x66, 0x92, 0x09, 0x38, 0x46, 0x34, 0x63, 0x37, 0x46, 0x07, 0x43, 0x17, 0x68, 0x21, 0x15 - (m.b % 3) as u8, last],
                    0 | 1 => vec![0x99; 1 + (m.b % 40) as usize],
                    2 => m.bytes.iter().cloned().chain([0x12]).take(40).collect(),
                    // leading digits right at the overflow limit of u8 / u16 / u32 / u64, then an arbitrary last byte
                    3 => vec![0x02 + (m.b % 2) as u8, last],
                    4 => vec![0x06, 0x55 - (m.b % 2) as u8, last],
                    5 => vec![0x42, 0x94, 0x96, 0x72 - (m.b % 2) as u8, last],
                    _ => vec![0x18, 0x44, 0x67, 0x44, 0x07, 0x37, 0x09, 0x55, 0x16 - (m.b % 3) as u8, last],
                };
                level_mut(&mut gs, &path)[gi].elems[ei].node = Node::Leaf(digits);
            }
        }
        3 => {
            let dts: Vec<_> = elems.iter().filter(|(p, gi, _)| level(&gs, p)[*gi].enc == Enc::DateTime).cloned().collect();
            if !dts.is_empty() {
                class = "calendar";
                let (path, gi, ei) = dts[pick(m.sel, dts.len())].clone();
                let g = |k: usize, modulo: u8| -> u8 { let x = m.bytes.get(k).copied().unwrap_or(0x31) % modulo; (x / 10) << 4 | (x % 10) };
                let mut p = vec![0x1f, 0x0e];
                let date = vec![g(0, 100), g(1, 100), g(2, 20), g(3, 40)];
                let time = vec![g(4, 30), g(5, 70), g(6, 70)];
                // digits of a number as packed BCD (even number of digits)
                let bcd_of = |mut n: u128| -> Vec<u8> {
                    let mut d = vec![];
                    while n > 0 {
                        d.push((n % 10) as u8);
                        n /= 10;
                    }
                    if d.len() % 2 == 1 {
                        d.push(0);
                    }
                    d.reverse();
                    d.chunks(2).map(|c| c[0] << 4 | c[1]).collect()
                };
                let dec = |b: u8| (b >> 4) as u128 * 10 + (b & 15) as u128;
                // wrap-around aliases: the hour / the year plus k * 2^8, 2^16, 2^32 (a number that does not fit must be an
                // error, not a value truncated into range)
                let shift = [8u32, 16, 32, 32][(m.b % 4) as usize];
                let k = 1 + (m.b / 4 % 3) as u128;
                match m.a % 8 {
                    6 => {
                        let t = (dec(time[0]) + (k << shift)) * 10_000 + dec(time[1]) * 100 + dec(time[2]);
                        let tb = bcd_of(t);
                        p.push(4); p.extend(&date); p.extend([0x1f, 0x0f, tb.len() as u8]); p.extend(&tb);
                    }
                    7 => {
                        let y = dec(date[0]) * 100 + dec(date[1]);
                        let d = (y + (k << shift)) * 10_000 + dec(date[2]) * 100 + dec(date[3]);
                        let db = bcd_of(d);
                        p.push(db.len() as u8); p.extend(&db); p.extend([0x1f, 0x0f, 3]); p.extend(&time);
                    }
                    0 => { p.push(4); p.extend(&date); p.extend([0x1f, 0x0f, 3]); p.extend(&time); }
                    1 => { p.push(5); p.push(0x99); p.extend(&date); p.extend([0x1f, 0x0f, 3]); p.extend(&time); }
                    2 => { p.push(4); p.extend(&date); p.extend([0x1f, 0x0f, 5, 0x99, 0x99]); p.extend(&time); }
                    3 => { p.push(4); p.extend(&date); }
                    4 => { p.push(4); p.extend(&date); p.extend([0x1f, 0x0e, 4]); p.extend(&date); p.extend([0x1f, 0x0f, 3]); p.extend(&time); }
                    _ => { p = vec![0x1f, 0x0f, 3]; p.extend(&time); p.extend([0x1f, 0x0e, 4]); p.extend(&date); }
                }
                level_mut(&mut gs, &path)[gi].elems[ei].node = Node::Leaf(p);
            }
        }
        4 | 5 | 6 => {
            let lv: Vec<Path> = levels(&gs).into_iter().map(|(p, _)| p).collect();
            let path = lv[pick(m.sel, lv.len())].clone();
            let level = level_mut(&mut gs, &path);
            if !level.is_empty() {
                let gi = pick(m.a, level.len());
                match m.kind {
                    4 => {
                        class = "delete-group";
                        level.remove(gi);
                    }
                    5 => {
                        class = "duplicate-group";
                        let g = level[gi].clone();
                        let at = pick(m.b, level.len() + 1);
                        level.insert(at, g);
                    }
                    _ => {
                        class = "splice-foreign-group";
                        let raw = if pool.is_empty() || m.b % 3 == 0 { m.bytes.clone() } else { pool[pick(m.b, pool.len())].clone() };
                        let mut g = level[gi].clone();
                        g.elems = vec![Elem { tag: None, len: Len::None, node: Node::Leaf(vec![]), announce: None, raw: Some(raw), prefix_override: None }];
                        level.insert(gi, g);
                    }
                }
            }
        }
        _ => {}
    }
    let mut bytes = top(&gs);
    match m.kind {
        7 => {
            if l.ctrl.is_some() && bytes.len() >= 3 {
                class = "apdu-length";
                let body = bytes.len() - if bytes[2] == 0xff { 5 } else { 3 };
                let nl = match m.a % 8 {
                    0 => body + 1,
                    1 => body.saturating_sub(1),
                    2 => body + 2,
                    3 => 0,
                    4 => 0xfe,
                    5 => 0xff,
                    6 => m.b as usize,
                    _ => body.saturating_sub(3),
                };
                let hdr = if bytes[2] == 0xff { 5 } else { 3 };
                let mut o = vec![bytes[0], bytes[1]];
                if m.b % 4 == 0 || nl >= 0xff {
                    o.extend([0xff, nl as u8, (nl >> 8) as u8]);
                } else {
                    o.push(nl as u8);
                }
                o.extend(&bytes[hdr..]);
                bytes = o;
            }
        }
        8 => {
            class = "truncate";
            let n = pick(m.sel, bytes.len() + 1);
            bytes.truncate(n);
        }
        9 => {
            class = "byte-flips";
            if !bytes.is_empty() {
                for k in 0..1 + (m.a % 3) as usize {
                    let at = pick(m.sel.wrapping_add(k as u16 * 7919), bytes.len());
                    bytes[at] = m.bytes.get(k).copied().unwrap_or(0xff);
                }
            }
        }
        _ => {}
    }
    (bytes, class)
}

// ------------------------------------------------------------------------------------------------
// (e) debug / release agreement

fn digest_of(d: &Decoders, dec: usize, inputs: impl Iterator<Item = Vec<u8>>) -> u64 {
    let mut h: u64 = 0xcbf29ce484222325;
    for b in inputs {
        let o = d.outcome(dec, &b);
        for x in o.as_bytes() {
            h ^= *x as u64;
            h = h.wrapping_mul(0x100000001b3);
        }
        h = h.rotate_left(7);
    }
    h
}
fn l1_count(d: &Decoders, dec: usize) -> usize {
    if dec < d.tys.len() && d.t[d.tys[dec].name].ctrl.is_some() {
        3 * 65793
    } else {
        65793
    }
}
/// digests of the deterministic layers: key "L1/<decoder>" and "L2/<decoder>/<entry>"
pub fn digests(d: &Decoders, corpus: &[Entry], all256: bool) -> Vec<(String, u64)> {
    use rayon::prelude::*;
    let mut jobs: Vec<(String, usize, Option<usize>)> = vec![];
    for dec in 0..d.n() {
        jobs.push((format!("L1/{}", d.name(dec)), dec, None));
    }
    for (ei, e) in corpus.iter().enumerate() {
        for (dec, ctrl) in decoders_for(d, e, ei, 0) {
            let _ = ctrl;
            jobs.push((format!("L2/{}/{}", d.name(dec), ei), dec, Some(ei)));
        }
    }
    jobs.into_par_iter()
        .map(|(key, dec, ei)| {
            let h = match ei {
                None => digest_of(d, dec, (0..l1_count(d, dec)).filter_map(|i| small_input(d, dec, i))),
                Some(ei) => {
                    let b = &corpus[ei].bytes;
                    digest_of(d, dec, (0..mutant_count(b, all256)).filter_map(|i| mutant(b, i, all256)))
                }
            };
            (key, h)
        })
        .collect()
}

/// single input: outcome in this build vs. the release twin
pub fn check_buildmode(d: &Decoders, dec: usize, b: &[u8]) -> CheckResult {
    let Ok(relbin) = std::env::var("VERIF_RELBIN") else { return Ok(()) };
    let here = d.outcome(dec, b);
    let out = std::process::Command::new(relbin).args(["C02", "--outcome", &d.name(dec), &hex(b)]).output();
    let Ok(out) = out else { return Ok(()) };
    let there = String::from_utf8_lossy(&out.stdout).trim_end().to_string();
    if here == there {
        Ok(())
    } else {
        Err(Violation::new("buildmode", format!("C02 decoder={} kind=debug-release-differ", d.name(dec)), format!("input {}\n  checked build:  {}\n  release build:  {}", clip(&hex(b), 400), clip(&here, 400), clip(&there, 400)), json!({"decoder": d.name(dec), "bytes": hex(b)})))
    }
}

/// Entry point of the release twin: `zvtverif C02 --digest <corpus.json> <all256>` / `--dump <key> ...` / `--outcome <decoder> <hex>`
pub fn twin_main(args: &[String]) -> i32 {
    let d = Decoders::new();
    match args.first().map(|s| s.as_str()) {
        Some("--outcome") => {
            let dec = d.index_of(&args[1]).unwrap();
            println!("{}", d.outcome(dec, &unhex(&args[2])));
            0
        }
        Some("--digest") => {
            let corpus: Vec<Entry> = serde_json::from_str(&std::fs::read_to_string(&args[1]).unwrap()).unwrap();
            let all256 = args[2] == "1";
            for (k, h) in digests(&d, &corpus, all256) {
                println!("{k} {h:016x}");
            }
            0
        }
        Some("--dump") => {
            // per-input outcome hashes of one job
            let corpus: Vec<Entry> = serde_json::from_str(&std::fs::read_to_string(&args[1]).unwrap()).unwrap();
            let all256 = args[2] == "1";
            for line in dump_job(&d, &corpus, all256, &args[3]) {
                println!("{line:016x}");
            }
            0
        }
        _ => 2,
    }
}
fn job_inputs(d: &Decoders, corpus: &[Entry], all256: bool, key: &str) -> (usize, Vec<Vec<u8>>) {
    let parts: Vec<&str> = key.splitn(3, '/').collect();
    if parts[0] == "L1" {
        let dec = d.index_of(&key[3..]).unwrap();
        (dec, (0..l1_count(d, dec)).filter_map(|i| small_input(d, dec, i)).collect())
    } else {
        let rest = &key[3..];
        let (name, ei) = rest.rsplit_once('/').unwrap();
        let dec = d.index_of(name).unwrap();
        let b = &corpus[ei.parse::<usize>().unwrap()].bytes;
        (dec, (0..mutant_count(b, all256)).filter_map(|i| mutant(b, i, all256)).collect())
    }
}
fn dump_job(d: &Decoders, corpus: &[Entry], all256: bool, key: &str) -> Vec<u64> {
    let (dec, inputs) = job_inputs(d, corpus, all256, key);
    inputs.iter().map(|b| fnv_str(&d.outcome(dec, b))).collect()
}

// ------------------------------------------------------------------------------------------------

pub fn run(tier: Tier) -> i32 {
    let ctx = Ctx::new(P, "exploration", tier);
    let root = verif_root();
    let _ = std::fs::create_dir_all(root.join("replays").join(P));
    crate::alloc::set_replay_path(&root.join("replays").join(P).join("allocation-cap.json").display().to_string());
    crate::alloc::start_watchdog(P, 60, root.join("replays").join(P));
    let mut stats = Stats::new();
    stats.sample_cap = 10;
    crate::run_regressions(&ctx, &mut stats, replay);
    let d = Decoders::new();
    let all256 = tier == Tier::Thorough;
    let corpus = build_corpus(&ctx, &d, tier.pick(3, 24));
    let cross = tier.pick(4, 10);

    // layer 1: exhaustive small inputs
    let s = ctx.shards("small", d.n() as u64 * 4, |i, _seed, st| {
        let dec = (i / 4) as usize;
        let part = (i % 4) as usize;
        let n = l1_count(&d, dec);
        let (mut total, mut nt) = (0u64, 0u64);
        let mut k = part;
        while k < n {
            if let Some(b) = small_input(&d, dec, k) {
                total += 1;
                if d.past_first_branch(dec, &b) {
                    nt += 1;
                }
                let r = check_decode(&d, dec, &b, false);
                if r.is_err() {
                    ctx.record(r, st);
                }
            }
            k += 4;
        }
        st.enumerated(total, nt);
        st.class_n("layer1:exhaustive-small", total);
        if part == 0 && dec == 3 {
            st.sample(|| json!({"layer": 1, "decoder": d.name(dec), "inputs": "APDU 04 0f <len> <body> for every body of length 0..2, with len correct, one short and one long"}));
        }
    });
    stats.merge(s);

    // layer 2: every truncation and boundary (thorough: every) substitution of every corpus entry
    let s = ctx.shards("corpus", corpus.len() as u64, |i, _seed, st| {
        let e = &corpus[i as usize];
        let own_cmd = d.t[d.tys[e.ty].name].ctrl.is_some();
        let decs = decoders_for(&d, e, i as usize, cross);
        let n = mutant_count(&e.bytes, all256);
        let stride = if e.bytes.len() > 600 && !all256 { 1 } else { 1 };
        let (mut total, mut nt) = (0u64, 0u64);
        for k in (0..n).step_by(stride) {
            let Some(m) = mutant(&e.bytes, k, all256) else { continue };
            for (di, (dec, ctrl)) in decs.iter().enumerate() {
                // cross-type decoders see every 4th mutant only (cost), the own decoder and the parsers all
                if di > d.ens.len() && k % 4 != 0 {
                    continue;
                }
                let b = if ctrl.is_some() { patched(&m, *ctrl, own_cmd) } else { m.clone() };
                total += 1;
                if d.past_first_branch(*dec, &b) {
                    nt += 1;
                }
                let r = check_decode(&d, *dec, &b, di == 0);
                if r.is_err() {
                    ctx.record(r, st);
                }
            }
        }
        st.enumerated(total, nt);
        st.class_n(if e.label.starts_with("capture") { "layer2:capture-mutants" } else { "layer2:generated-mutants" }, total);
        if i == 0 || i == 30 {
            st.sample(|| json!({"layer": 2, "entry": e.label, "len": e.bytes.len(), "mutants": n, "decoders": decs.len()}));
        }
    });
    stats.merge(s);

    // layer 3: structure-aware random mutations
    let mut pool: Vec<Vec<u8>> = vec![];
    for e in &corpus {
        let l = &d.t[d.tys[e.ty].name];
        if let Ok((v, _)) = decode(&d.t, l, &e.bytes) {
            if let Ok(gs) = build(&d.t, l, &v) {
                for (p, _) in levels(&gs) {
                    for g in level(&gs, &p) {
                        let b = assemble_group(g);
                        if !b.is_empty() && b.len() <= 64 {
                            pool.push(b);
                        }
                    }
                }
            }
        }
    }
    pool.sort();
    pool.dedup();
    let per_type: u32 = tier.pick(3_000, 60_000);
    let parts: u64 = tier.pick(1, 4);
    let s = ctx.shards("mutations", d.tys.len() as u64 * parts, |i, seed, st| {
        let ti = (i % d.tys.len() as u64) as usize;
        let e = &d.tys[ti];
        let l = d.t[e.name].clone();
        let has_bcd = {
            let mut v = false;
            fn rec(t: &Table, n: &str, v: &mut bool) {
                for f in &t[n].fields {
                    match &f.enc {
                        Enc::Bcd(_) | Enc::ReceiptNo | Enc::DateTime => *v = true,
                        Enc::Struct(s) => rec(t, s, v),
                        _ => {}
                    }
                }
            }
            rec(&d.t, e.name, &mut v);
            v
        };
        let has_datetime = {
            let mut v = false;
            fn rec(t: &Table, n: &str, v: &mut bool) {
                for f in &t[n].fields {
                    match &f.enc {
                        Enc::DateTime => *v = true,
                        Enc::Struct(s) => rec(t, s, v),
                        _ => {}
                    }
                }
            }
            rec(&d.t, e.name, &mut v);
            v
        };
        let kinds: Vec<u8> = if has_datetime { vec![0, 1, 2, 2, 3, 3, 3, 3, 3, 3, 4, 5, 6, 7, 8, 9] } else if has_bcd { vec![0, 1, 2, 2, 3, 4, 5, 6, 7, 8, 9] } else { vec![0, 1, 4, 5, 6, 7, 8, 9] };
        let mstrat = (proptest::sample::select(kinds), any::<u16>(), any::<u16>(), any::<u16>(), proptest::collection::vec(any::<u8>(), 0..12)).prop_map(|(kind, sel, a, b, bytes)| Mutation { kind, sel, a, b, bytes });
        let strat = (strategy_for(&d.t, e.name, GenCfg { vec_max: 3, text_max: 30, blob_max: 30 }), mstrat, any::<u16>());
        ctx.proptest(seed, per_type / parts as u32, &strat, st, |(v, m, other), st| {
            if !is_canonical(&d.t, &l, v) {
                st.class("discarded-non-canonical");
                return Ok(());
            }
            let (bytes, class) = apply_mutation(&d.t, &l, v, m, &pool);
            st.case(d.past_first_branch(ti, &bytes), fnv(&bytes) ^ fnv_str(e.name));
            st.class(&format!("layer3:{class}"));
            if st.samples.len() < 1 && class == "digit-overflow" {
                st.sample(|| json!({"layer": 3, "decoder": e.name, "mutation": class, "bytes": clip(&hex(&bytes), 200)}));
            }
            check_decode(&d, ti, &bytes, true)?;
            // the same bytes through a reply parser and one other decoder
            let en = d.tys.len() + pick(*other, d.ens.len());
            check_decode(&d, en, &bytes, false)?;
            let o = pick(other.rotate_left(5), d.tys.len());
            if d.t[d.tys[o].name].ctrl.is_none() {
                let body = if l.ctrl.is_some() && bytes.len() > 3 { &bytes[3..] } else { &bytes[..] };
                check_decode(&d, o, body, false)?;
            }
            Ok(())
        });
    });
    stats.merge(s);

    // layer 4 (thorough): coverage-guided campaign with the same oracle inside the target
    if tier == Tier::Thorough {
        let seeds: Vec<Vec<u8>> = corpus.iter().map(|e| { let mut v = vec![e.ty as u8]; v.extend(&e.bytes); v }).filter(|v| v.len() <= 4096).collect();
        match fuzz_campaign("decode_any", 3_000_000, 4096, ctx.seed, &seeds) {
            Err(e) => stats.notes.push(format!("coverage-guided layer skipped (infrastructure): {e}")),
            Ok((crash, stat)) => {
                stats.class_n("layer4:libfuzzer-runs", 3_000_000);
                stats.evaluations += 3_000_000;
                stats.notes.push(format!("libFuzzer decode_any: {stat}"));
                stats.sample(|| json!({"layer": 4, "engine": "libFuzzer (cargo-fuzz target decode_any)", "runs": 3_000_000, "seed_corpus": seeds.len(), "stats": stat}));
                if let Some(input) = crash {
                    if !input.is_empty() {
                        let idx = input[0] as usize % d.n();
                        // re-check through the deterministic path before reporting
                        let r = check_decode(&d, idx, &input[1..], true);
                        if r.is_ok() {
                            stats.notes.push(format!("libFuzzer saved an input that does not reproduce deterministically: decoder {} bytes {}", d.name(idx), clip(&hex(&input[1..]), 200)));
                        }
                        ctx.record(r, &mut stats);
                    }
                }
            }
        }
    }

    // (e) debug/release agreement on the deterministic layers
    if let Ok(relbin) = std::env::var("VERIF_RELBIN") {
        let cpath = root.join("target").join("c02-corpus.json");
        let _ = std::fs::create_dir_all(root.join("target"));
        std::fs::write(&cpath, serde_json::to_string(&corpus).unwrap()).ok();
        let flag = if all256 { "1" } else { "0" };
        let mine = digests(&d, &corpus, all256);
        match std::process::Command::new(&relbin).args(["C02", "--digest", &cpath.display().to_string(), flag]).output() {
            Ok(out) if out.status.success() => {
                let theirs: std::collections::HashMap<String, String> = String::from_utf8_lossy(&out.stdout).lines().filter_map(|l| l.rsplit_once(' ').map(|(a, b)| (a.to_string(), b.to_string()))).collect();
                let mut differing = vec![];
                for (k, h) in &mine {
                    match theirs.get(k) {
                        Some(t) if *t == format!("{h:016x}") => {}
                        _ => differing.push(k.clone()),
                    }
                }
                stats.class_n("build-mode-digests-compared", mine.len() as u64);
                stats.evaluations += mine.len() as u64;
                stats.sample(|| json!({"oracle": "debug/release agreement", "digests": mine.len(), "differing": differing.len()}));
                for key in differing.iter().take(4) {
                    // bisect to one input
                    let here = dump_job(&d, &corpus, all256, key);
                    let out = std::process::Command::new(&relbin).args(["C02", "--dump", &cpath.display().to_string(), flag, key]).output();
                    let there: Vec<String> = out.map(|o| String::from_utf8_lossy(&o.stdout).lines().map(|s| s.to_string()).collect()).unwrap_or_default();
                    let (dec, inputs) = job_inputs(&d, &corpus, all256, key);
                    let pos = (0..here.len()).find(|i| there.get(*i).map(|t| *t != format!("{:016x}", here[*i])).unwrap_or(true));
                    if let Some(pos) = pos {
                        let r = check_buildmode(&d, dec, &inputs[pos]);
                        ctx.record(r, &mut stats);
                    }
                }
            }
            other => stats.notes.push(format!("release twin failed to run: {:?}", other.map(|o| o.status))),
        }
    } else {
        stats.notes.push("VERIF_RELBIN not set: debug/release comparison skipped".into());
    }

    stats.notes.push(format!("largest allocation of one decode call: {} bytes; largest bytes-allocated / input-length ratio (inputs >= 16 bytes): {}", MAX_ALLOC.load(std::sync::atomic::Ordering::Relaxed), MAX_ALLOC_RATIO.load(std::sync::atomic::Ordering::Relaxed)));
    stats.exhaustive_parts = vec![
        "layer 1: every APDU body of length 0..2 (correct and off-by-one length byte) for all 31 command decoders; every byte string of length <= 2 for the 24 container types and 17 reply parsers".into(),
        format!("layer 2: every truncation and every {} substitution at every offset of {} corpus entries", if all256 { "single-byte (256 values)" } else { "boundary-value (24 values)" }, corpus.len()),
    ];
    ctx.finish(
        stats,
        "layer 1 exhaustive small inputs; layer 2 deterministic corpus mutation (corpus = captured blobs + reference-encoded generated values per type; each mutant through its own decoder, all 17 reply parsers and rotating other decoders); layer 3 proptest structure-aware mutations (length announcements and BER forms, digit overflow incl. digit strings right at the overflow limit, calendar values incl. hour / year plus k*2^8 / 2^16 / 2^32 (wrap-around aliases), group delete/duplicate/splice, APDU length, truncation, byte flips). Oracle per call: no panic (overflow checks on), allocation <= 200*len + 16 KiB (hard cap 512 MiB), remainder is a suffix, result equals the exact u128 reference reading when both accept, a packet the exact reading rejects because a number does not fit (BCD overflow, impossible date / time) is not accepted, checked and release builds give identical outcomes. non-trivial = the decoder got past its control-field / first-byte check; distinct by (decoder, input)",
        &["the reference decoder (refc.rs) is the exact reading for oracle (d); inputs it rejects give no differential verdict", "the coverage-guided layer (libFuzzer target fuzz/decode_any) runs in the thorough tier only"],
        false,
    )
}
