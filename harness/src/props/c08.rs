//! C08 — commit releases exactly the unused part of the pre-authorisation.
use crate::engine::*;
use crate::refc::*;
use crate::scenario::*;
use crate::sim::*;
use proptest::prelude::*;
use serde::{Deserialize, Serialize};
use serde_json::{json, Value};

const P: &str = "C08";

#[derive(Serialize, Deserialize, Clone, Debug, PartialEq)]
pub struct StatusFields {
    pub amount: Option<u64>,
    pub trace_number: Option<u64>,
    pub time: Option<u64>,
    pub date: Option<u64>,
    pub terminal_id: Option<u64>,
}
#[derive(Serialize, Deserialize, Clone, Debug, PartialEq)]
pub struct AmountCase {
    pub pre_auth: u64,
    pub final_amount: u64,
    pub currency: u64,
    pub password: u64,
    pub token: String,
    pub receipt: u64,
    pub status: Vec<StatusFields>,
    pub cancel: bool,
    pub intermediates: usize,
    /// the connection drops after the reservation's status information (before its completion): the client retries on
    /// a new connection and the terminal issues the next receipt number; commit must use the receipt of the
    /// reservation that completed
    #[serde(default)]
    pub retried_reservation: bool,
    /// earlier, completed use of the same client object: a card was read (its status information may carry the optional
    /// "maximum pre-authorisation" field 1f0b and an application list), and/or a whole earlier begin + commit with this final amount
    /// status informations of the reservation (Sim::status_script)
    #[serde(default)]
    pub status_script: Option<String>,
    /// amounts the reservation's status informations report (empty: they echo the requested amount)
    #[serde(default)]
    pub status_amounts: Vec<u64>,
    #[serde(default)]
    pub prior_card: Option<PriorCard>,
    #[serde(default)]
    pub prior_txn: Option<u64>,
    /// an earlier begin on the same client was declined (status information with a receipt number of its own, then abort)
    #[serde(default)]
    pub prior_declined: bool,
    /// between begin and the real commit / cancel the same call is tried with the token in swapped ASCII case (a token
    /// no reservation was made for): it must be refused without traffic and leave the reservation alone
    #[serde(default)]
    pub case_probe: bool,
    /// a second transaction is opened after the observed one and stays open (max_transactions = 2); the terminal gives it
    /// the same receipt number (`Some(true)`) or the next one (`Some(false)`). The commit / cancel of the first must still
    /// go out against its own reservation.
    #[serde(default)]
    pub twin: Option<bool>,
}
fn swapcase(s: &str) -> String {
    s.chars().map(|c| if c.is_ascii_lowercase() { c.to_ascii_uppercase() } else if c.is_ascii_uppercase() { c.to_ascii_lowercase() } else { c }).collect()
}
#[derive(Serialize, Deserialize, Clone, Debug, PartialEq)]
pub struct PriorCard {
    pub limit: Option<u64>,
    pub payment: bool,
    pub extra: bool,
}
fn prior_card_reply(t: &Table, p: &PriorCard) -> String {
    let mut f = vec![("uuid", opt_s(Some("04a1b2c3d4e5f6"))), ("maximum_pre_autorisation", opt_u(p.limit))];
    if p.payment {
        let sub = make(t, "tlv.Subs", &[("card_type", opt_s(Some("02"))), ("application_id", opt_s(Some("a0000000041010")))]);
        f.push(("subs", Val::List(vec![sub])));
    }
    if p.extra {
        f.push(("ats", opt_s(Some("0578807002"))));
        f.push(("sak", opt_u(Some(0x20))));
    }
    let tlv = make(t, "tlv.StatusInformation", &f);
    let mut set = vec![("result_code", opt_u(Some(0))), ("tlv", Val::Some(Box::new(tlv)))];
    if p.extra {
        set.push(("amount", opt_u(p.limit.map(|l| l % 1_000_000_000_000))));
    }
    let si = make(t, "StatusInformation", &set);
    hex(&enc(t, "StatusInformation", &si))
}

fn bmp60(t: &Table, token: &str) -> Val {
    let b = make(t, "tlv.Bmp60", &[("bmp_prefix", Val::S("AC".into())), ("bmp_data", Val::S(token.to_string()))]);
    make(t, "tlv.PreAuthData", &[("bmp_data", Val::Some(Box::new(b)))])
}

pub fn check_amounts(c: &AmountCase) -> CheckResult {
    let input = serde_json::to_value(c).unwrap();
    let t = crate::table();
    let v = |kind: &str, detail: String| Err(Violation::new("amounts", format!("C08 kind={kind}"), detail, input.clone()));
    let mut sc = Scenario { cfg: CfgSpec { amount: c.pre_auth, currency: c.currency, password: c.password, max: 1, ..Default::default() }, ..Default::default() };
    let receipt2 = c.receipt % 9999 + 1;
    let live_receipt = if c.retried_reservation { receipt2 } else { c.receipt };
    sc.sim.receipts = vec![c.receipt, receipt2];
    let receipt0 = (c.receipt + 4999) % 9999 + 1;
    if let Some(p) = &c.prior_card {
        sc.sim.card_replies = vec![prior_card_reply(&t, p)];
        sc.setup.push(Op::ReadCard);
    }
    if let Some(a) = c.prior_txn {
        sc.sim.receipts.insert(0, receipt0);
        sc.setup.push(Op::Begin("earlier".into()));
        sc.setup.push(Op::Commit("earlier".into(), a));
    }
    if c.retried_reservation {
        // reply script of a reservation: ack, intermediates.., status information, completion
        let pos = 1 + c.intermediates + 1;
        sc.plan = vec![PlanEntry { kind: Kind::Reservation, occ: Some(0), from_start: false, directive: Directive { fault: Some((FaultKind::Close, pos)), ..Default::default() } }];
    }
    sc.sim.intermediates = c.intermediates;
    sc.sim.status_script = c.status_script.clone();
    sc.sim.status_amounts = c.status_amounts.clone();
    sc.sim.reversal_status = c
        .status
        .iter()
        .map(|s| {
            let si = make(&t, "StatusInformation", &[("result_code", opt_u(Some(0))), ("amount", opt_u(s.amount)), ("trace_number", opt_u(s.trace_number)), ("time", opt_u(s.time)), ("date", opt_u(s.date)), ("terminal_id", opt_u(s.terminal_id))]);
            hex(&enc(&t, "StatusInformation", &si))
        })
        .collect();
    sc.ops = vec![Op::Begin(c.token.clone()), if c.cancel { Op::Cancel(c.token.clone()) } else { Op::Commit(c.token.clone(), c.final_amount) }];
    let twin = c.twin.filter(|_| !c.retried_reservation && !c.prior_declined && !c.case_probe && c.status_script.is_none());
    if let Some(same) = twin {
        sc.cfg.max = 2;
        if same {
            let n = sc.sim.receipts.len();
            sc.sim.receipts[n - 1] = c.receipt;
        }
        sc.ops.insert(1, Op::Begin(format!("{}-twin", c.token)));
    }
    let probe = c.case_probe && swapcase(&c.token) != c.token;
    if probe {
        let other = swapcase(&c.token);
        sc.ops.insert(1, if c.cancel { Op::Cancel(other) } else { Op::Commit(other, c.final_amount) });
    }
    if c.prior_declined {
        sc.ops.insert(0, Op::Begin(format!("{}-declined", c.token)));
        // the first reservation of the observed phase is declined; a retried reservation is then the second one
        for p in sc.plan.iter_mut() {
            if p.kind == Kind::Reservation {
                p.occ = p.occ.map(|o| o + 1);
            }
        }
        sc.plan.push(PlanEntry { kind: Kind::Reservation, occ: Some(0), from_start: false, directive: Directive { outcome: Outcome::AbortAfterStatus(0x05), ..Default::default() } });
    }
    let mut tr = guard(|| run_scenario(&sc)).map_err(|p| Violation::new("amounts", "C08 kind=harness-panic".to_string(), p, input.clone()))?;
    if c.prior_declined {
        if !tr.new_returned || tr.calls.len() != 3 + probe as usize || !matches!(tr.calls[0].result, Some(Err(_))) {
            return Ok(());
        }
        tr.calls.remove(0);
    }
    if probe {
        if !tr.new_returned || tr.calls.len() != 3 {
            return Ok(());
        }
        let pr = decoded_requests(&tr.world, tr.calls[1].req_from, tr.calls[1].req_to);
        if !matches!(tr.calls[1].result, Some(Err(_))) || !pr.is_empty() {
            return v("other-token-accepted", format!("reservation open under {:?}; the same call with {:?} (never begun) returned {:?} after sending [{}]", c.token, swapcase(&c.token), tr.calls[1].result, pr.iter().map(|o| format!("{:?} {}", o.0, render(&o.1))).collect::<Vec<_>>().join("; ")));
        }
        tr.calls.remove(1);
    }
    if twin.is_some() {
        if !tr.new_returned || tr.calls.len() != 3 {
            return Ok(());
        }
        if !matches!(tr.calls[1].result, Some(Ok(_))) {
            return v("second-begin-failed", format!("with room for two transactions the second begin returned {:?}", tr.calls[1].result));
        }
        tr.calls.remove(1);
    }
    if !tr.new_returned || tr.calls.len() != 2 {
        return Ok(());
    }
    // a reservation whose status informations carry no receipt number at all cannot be committed or cancelled later:
    // begin fails, and the second call is refused without any traffic
    if c.status_script.as_deref().map(|s| !s.contains('R')).unwrap_or(false) {
        let r1 = decoded_requests(&tr.world, tr.calls[1].req_from, tr.calls[1].req_to);
        return match (&tr.calls[0].result, &tr.calls[1].result) {
            (Some(Err(_)), Some(Err(_))) if r1.is_empty() => Ok(()),
            (a, b) => v("no-receipt-reservation-used", format!("the reservation reported no receipt number: begin returned {a:?}; the {} then returned {b:?} after sending [{}]", if c.cancel { "cancel" } else { "commit" }, r1.iter().map(|o| format!("{:?} {}", o.0, render(&o.1))).collect::<Vec<_>>().join("; "))),
        };
    }
    if tr.setup.iter().any(|s| !matches!(s.result, Some(Ok(_)))) {
        return v("earlier-call-failed", format!("the earlier calls {:?} returned {:?}", sc.setup, tr.setup.iter().map(|s| s.result.clone()).collect::<Vec<_>>()));
    }
    for (k, call) in tr.calls.iter().enumerate() {
        if let Some(p) = &call.panicked {
            return v("panic", format!("call {k} panicked: {p}"));
        }
        if call.result.is_none() {
            return v("call-did-not-return", format!("call {k}"));
        }
    }
    // 1. the reservation
    let r0 = decoded_requests(&tr.world, tr.calls[0].req_from, tr.calls[0].req_to);
    let want_res = make(&t, "Reservation", &[("amount", opt_u(Some(c.pre_auth))), ("currency", opt_u(Some(c.currency))), ("payment_type", opt_u(Some(0x40))), ("tlv", Val::Some(Box::new(bmp60(&t, &c.token))))]);
    let reservations: Vec<&(Kind, Val, usize, Vec<u8>)> = r0.iter().filter(|r| r.0 == Kind::Reservation).collect();
    let others = r0.iter().filter(|r| !matches!(r.0, Kind::Reservation | Kind::Registration | Kind::SystemInfo)).count();
    let expected_n = if c.retried_reservation { 2 } else { 1 };
    if reservations.len() != expected_n || others != 0 || reservations.iter().any(|r| r.1 != want_res) || (!c.retried_reservation && r0.len() != 1) {
        return v("reservation-request", format!("begin sent [{}]\n  expected {expected_n} x exactly {}", r0.iter().map(|o| format!("{:?} {}", o.0, render(&o.1))).collect::<Vec<_>>().join("; "), render(&want_res)));
    }
    if !matches!(tr.calls[0].result, Some(Ok(_))) {
        return v("begin-failed", format!("begin returned {:?}", tr.calls[0].result));
    }
    // 2. commit / cancel
    let r1 = decoded_requests(&tr.world, tr.calls[1].req_from, tr.calls[1].req_to);
    if c.cancel {
        let want = make(&t, "PreAuthReversal", &[("payment_type", opt_u(Some(0x40))), ("currency", opt_u(Some(c.currency))), ("receipt_no", opt_u(Some(live_receipt)))]);
        match r1.first() {
            Some((Kind::PreAuthReversal, got, _, _)) if *got == want => {}
            other => return v("cancel-request", format!("cancel sent {}\n  expected {}", other.map(|o| render(&o.1)).unwrap_or("nothing".into()), render(&want))),
        }
        return Ok(());
    }
    let release = (c.pre_auth as u128).saturating_sub(c.final_amount as u128) as u64;
    let want = make(&t, "PartialReversal", &[("receipt_no", opt_u(Some(live_receipt))), ("amount", opt_u(Some(release))), ("payment_type", opt_u(Some(0x40))), ("currency", opt_u(Some(c.currency))), ("tlv", Val::Some(Box::new(bmp60(&t, &c.token))))]);
    match r1.first() {
        Some((Kind::PartialReversal, got, _, _)) if *got == want => {}
        Some((_, got, _, _)) => {
            let kind = if get_u(got, "amount") != Some(release) { "released-amount" } else if get_u(got, "receipt_no") != Some(live_receipt) { "wrong-receipt" } else { "commit-request" };
            return v(kind, format!("pre-authorised {} final {}: commit sent {}\n  expected {} (release max(P - a, 0) = {release})", c.pre_auth, c.final_amount, render(got), render(&want)));
        }
        None => return v("commit-request", "commit sent nothing".into()),
    }
    // the terminal's ledger: booked = min(a, P)
    let booked = tr.world.sim.lock().unwrap().booked.clone();
    let want_booked = c.final_amount.min(c.pre_auth);
    let mut want_ledger = vec![];
    if let Some(a) = c.prior_txn {
        want_ledger.push((receipt0, a.min(c.pre_auth)));
    }
    want_ledger.push((live_receipt, want_booked));
    if booked != want_ledger {
        return v("ledger", format!("terminal booked {:?}; expected {:?}", booked, want_ledger));
    }
    // 3. the summary reproduces the last status information
    let last = c.status.last().unwrap();
    match &tr.calls[1].result {
        Some(Ok(Ret::Summary { terminal_id, amount, trace_number, date, time })) => {
            let tid_ok = match (terminal_id, last.terminal_id) {
                (None, None) => true,
                (Some(s), Some(n)) => s.parse::<u64>().ok() == Some(n),
                _ => false,
            };
            let want_date = last.date.map(|d| format!("{d:04}"));
            let want_time = last.time.map(|d| format!("{d:06}"));
            if !tid_ok || *amount != last.amount || *trace_number != last.trace_number || *date != want_date || *time != want_time {
                return v("summary", format!("summary {{terminal_id: {terminal_id:?}, amount: {amount:?}, trace_number: {trace_number:?}, date: {date:?}, time: {time:?}}}\n  last status information {last:?} (date as 4 digits, time as 6 digits)"));
            }
        }
        other => return v("commit-result", format!("commit returned {:?}", other)),
    }
    Ok(())
}

pub fn replay(_c: &str, i: &Value) -> Option<CheckResult> {
    Some(check_amounts(&serde_json::from_value(i.clone()).ok()?))
}

fn digits(n: u32) -> BoxedStrategy<u64> {
    let max = 10u64.pow(n) - 1;
    prop_oneof![Just(0u64), Just(max), Just(1u64), (0u32..n).prop_map(|k| 10u64.pow(k)), 0u64..=max].boxed()
}

pub fn case_strategy() -> impl Strategy<Value = AmountCase> {
    let pre = prop_oneof![
        2 => Just(0u64),
        2 => Just(1u64),
        2 => Just(2500u64),
        2 => Just(999_999_999_999u64),
        3 => (0u32..12, prop_oneof![Just(-1i64), Just(0), Just(1)]).prop_map(|(k, d)| (10i64.pow(k) + d).clamp(0, 999_999_999_999) as u64),
        4 => 0u64..=999_999_999_999,
        1 => proptest::sample::select(vec![u32::MAX as u64, u32::MAX as u64 + 1, u32::MAX as u64 - 1, 1u64 << 31, 65_535, 65_536]),
    ];
    let status = (proptest::option::weighted(0.8, digits(12)), proptest::option::weighted(0.8, digits(6)), proptest::option::weighted(0.8, prop_oneof![Just(0u64), Just(235959), Just(1), 0u64..=999_999]), proptest::option::weighted(0.8, prop_oneof![Just(0u64), Just(1231), Just(101), 0u64..=9999]), proptest::option::weighted(0.8, digits(8)))
        .prop_map(|(amount, trace_number, time, date, terminal_id)| StatusFields { amount, trace_number, time, date, terminal_id });
    let token = proptest::collection::vec(prop_oneof![4 => 0x20u8..0x7f, 1 => 0x80u8..=0xff, 1 => 0x01u8..0x20], 0..=60).prop_map(|mut b| {
        if let Some(l) = b.last_mut() {
            if *l == 0 {
                *l = b'x';
            }
        }
        b.iter().map(|x| cp437_char(*x)).collect::<String>()
    });
    (
        pre,
        (any::<u8>(), any::<u64>()),
        prop_oneof![Just(978u64), Just(826), Just(752), Just(0), Just(9999)],
        prop_oneof![Just(0u64), Just(999_999), Just(123_456), 0u64..=999_999],
        token,
        prop_oneof![Just(1u64), Just(9999), 1u64..=9999],
        proptest::collection::vec(status, 1..=3),
        prop::bool::weighted(0.15),
        0usize..3,
        prop::bool::weighted(0.1),
        (prop::bool::weighted(0.25), any::<u8>(), any::<u64>(), prop::bool::weighted(0.12), any::<bool>(), any::<bool>()),
        (prop_oneof![4 => Just(0usize), 6 => 1usize..crate::props::c07::STATUS_SCRIPTS.len(), 1 => Just(100usize), 1 => Just(101usize)], proptest::option::weighted(0.3, proptest::collection::vec((0u8..8, any::<u64>()), 1..=3))),
    )
        .prop_map(|(pre_auth, (sel, rnd), currency, password, token, receipt, status, cancel, intermediates, retried_reservation, (card, lsel, lrnd, txn, payment, extra), (script, amounts))| {
            let status_amounts: Vec<u64> = amounts.unwrap_or_default().iter().map(|(k, r)| match k { 0 => 0, 1 => 1, 2 => pre_auth / 2, 3 => pre_auth.saturating_sub(1), 4 => pre_auth, 5 => (pre_auth + 1).min(999_999_999_999), 6 => r % (pre_auth + 1), _ => r % 1_000_000_000_000 }).collect();
            let status_script = match script { 0 => None, 100 => Some("N".to_string()), 101 => Some("NN".to_string()), k => Some(crate::props::c07::STATUS_SCRIPTS[k].to_string()) };
            let prior_declined = lrnd % 5 == 0;
            let case_probe = lrnd % 7 < 2;
            let twin = match lrnd % 11 { 0 | 1 => Some(true), 2 => Some(false), _ => None };
            let prior_card = card.then(|| PriorCard {
                limit: match lsel % 8 {
                    0 => None,
                    1 => Some(0),
                    2 => Some(pre_auth.saturating_sub(1)),
                    3 => Some(pre_auth / 2),
                    4 => Some(pre_auth),
                    5 => Some(pre_auth + 1),
                    6 => Some(lrnd % (pre_auth + 1)),
                    _ => Some(lrnd % 1_000_000_000_000),
                },
                payment,
                extra,
            });
            let prior_txn = txn.then(|| match lsel % 3 {
                0 => lrnd % (pre_auth + 1),
                1 => pre_auth.saturating_add(lrnd % 7),
                _ => lrnd,
            });
            let final_amount = match sel % 12 {
                0 => 0,
                1 => pre_auth.saturating_sub(1),
                2 => pre_auth,
                3 => pre_auth + 1,
                4 => u32::MAX as u64,
                5 => u32::MAX as u64 + 1,
                6 => u64::MAX,
                7 => u64::MAX - 1,
                8 => (rnd % (pre_auth + 1)).max(1).min(pre_auth),
                9 => pre_auth / 2,
                10 => pre_auth.saturating_add(rnd % 1000),
                _ => rnd,
            };
            AmountCase { pre_auth, final_amount, currency, password, token, receipt, status, cancel, intermediates, retried_reservation, status_script, status_amounts, prior_card, prior_txn, prior_declined, case_probe, twin }
        })
}

pub fn run(tier: Tier) -> i32 {
    let ctx = Ctx::new(P, "exploration", tier);
    let mut stats = Stats::new();
    stats.sample_cap = 6;
    crate::run_regressions(&ctx, &mut stats, replay);
    let n: u32 = tier.pick(40_000, 1_500_000);
    let s = ctx.shards("amounts", 32, |_i, seed, st| {
        ctx.proptest(seed, n / 32, &case_strategy(), st, |c, st| {
            let partial = c.final_amount != 0 && c.final_amount != c.pre_auth;
            st.case(partial && !c.cancel, fnv(&serde_json::to_vec(&(c.pre_auth, c.final_amount, c.currency, &c.token, c.cancel)).unwrap()));
            st.class(if c.cancel { "cancel" } else if c.final_amount > c.pre_auth { "final>pre-auth" } else if c.final_amount == c.pre_auth { "final==pre-auth" } else if c.final_amount == 0 { "final==0" } else { "partial-release" });
            if c.status.len() > 1 {
                st.class("several-status-informations");
            }
            if c.retried_reservation {
                st.class("reservation-retried-after-lost-connection");
            }
            if let Some(p) = &c.prior_card {
                st.class("earlier-read-card");
                if p.limit.map(|l| l < c.pre_auth).unwrap_or(false) {
                    st.class("earlier-read-card:card-limit-below-configured-amount");
                }
            }
            if c.prior_txn.is_some() {
                st.class("earlier-complete-transaction");
            }
            if c.prior_declined {
                st.class("earlier-declined-begin");
            }
            if c.case_probe && swapcase(&c.token) != c.token {
                st.class("probe-with-the-token-in-swapped-case");
            }
            if let Some(same) = c.twin.filter(|_| !c.retried_reservation && !c.prior_declined && !c.case_probe && c.status_script.is_none()) {
                st.class(if same { "second-transaction-open-with-the-same-receipt-number" } else { "second-transaction-open" });
            }
            if c.status_amounts.iter().any(|a| *a < c.pre_auth) {
                st.class("reservation-status-reports-less-than-requested");
            }
            if let Some(s) = &c.status_script {
                st.class(&format!("reservation-status-informations:{s}"));
            }
            if st.samples.len() < 1 && partial && !c.cancel {
                st.sample(|| serde_json::to_value(c).unwrap());
            }
            check_amounts(c)
        });
    });
    stats.merge(s);
    stats.sample(|| json!({"note": "release = max(P - a, 0) computed in u128; Reservation = {amount P, currency, payment type 0x40, BMP60 (AC, token)} and nothing else"}));
    ctx.finish(
        stats,
        "proptest: pre-authorisation amounts over 0..10^12-1 (0, 1, 10^k-1/10^k/10^k+1, u32 boundaries, maximum, uniform) x final amounts over u64 (0, P-1, P, P+1, u32::MAX +-1, u64::MAX, random) x currencies {978, 826, 752, 0, 9999} x passwords x CP437 tokens of 0..60 characters x receipts 1..9999 x 1..3 status-information packets with each of amount/trace/date/time/terminal-id present or absent over their full BCD width. The real client runs begin + commit (or cancel) against the simulated terminal, with the reservation answered by 1..3 status informations (receipt number in the first / middle / last one, a provisional number in front of the booked one) that echo the requested amount or report another one (0, 1, half, +-1, random), (or no receipt number at all: begin must fail and the later call be refused without traffic), in two sevenths of the cases with a probe call using the token in swapped ASCII case between begin and the real call (must be refused without traffic), in a fifth of the cases after an earlier declined begin (status information with a receipt number of its own, then abort), in a quarter of the cases after an earlier read_card on the same client (status information with the optional maximum-pre-authorisation field 1f0b absent / 0 / below / equal / above the configured amount, with or without a payment application) and in an eighth after an earlier complete begin + commit; requests are decoded by the reference codec and compared with exact expected values; the terminal's ledger and the returned summary are compared with min(a,P) resp. the last status information. non-trivial = a real partial release or a > P (final amount not in {0, P}); distinct by (P, a, currency, token, op)",
        &["P >= 10^12 does not fit the 12-digit amount field and is outside the property", "requests are decoded by the reference codec, never by the repo's"],
        false,
    )
}
