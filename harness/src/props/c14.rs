//! C14 — a decoded packet depends only on the bytes inside its announced length.
use crate::engine::*;
use crate::gen::*;
use crate::refc::*;
use crate::registry::*;
use crate::tree::*;
use proptest::prelude::*;
use serde_json::{json, Value};

const P: &str = "C14";

/// R1: decode(packet ‖ suffix) = (value, suffix)
pub fn check_suffix(t: &Table, e: &TypeEntry, v: &Val, suffix: &[u8]) -> CheckResult {
    let l = &t[e.name];
    let bytes = encode(t, l, v).expect("canonical");
    let mut buf = bytes.clone();
    buf.extend_from_slice(suffix);
    let input = json!({"type": e.name, "value": v, "suffix": hex(suffix)});
    let want = render(v);
    match guard(|| (e.decode)(&buf)) {
        Err(p) => Err(Violation::new("suffix", format!("C14 type={} rel=apdu-suffix kind=panic", e.name), p, input)),
        Ok(Ok((d, rest))) if d == want && rest == suffix.len() => {
            if (e.eq)(&buf, &bytes) == Some(true) {
                Ok(())
            } else {
                Err(Violation::new("suffix", format!("C14 type={} rel=apdu-suffix kind=value-changed", e.name), "values with and without suffix are not ==".to_string(), input))
            }
        }
        Ok(other) => Err(Violation::new(
            "suffix",
            format!("C14 type={} rel=apdu-suffix kind={}", e.name, match &other { Ok((d, _)) if *d != want => "value-changed", Ok(_) => "remainder-wrong", Err(_) => "rejected" }),
            format!("packet {} followed by {} suffix bytes {}\n  result {:?}\n  expected the value {} and exactly the {} suffix bytes handed back", clip(&hex(&bytes), 200), suffix.len(), clip(&hex(suffix), 140), other.map(|(d, r)| (clip(&d, 300), r)), clip(&want, 300), suffix.len()),
            input,
        )),
    }
}

/// all elements of the tree: (path of the level, group index, element index, payload length)
fn all_elems(gs: &[Group]) -> Vec<(Path, usize, usize, usize)> {
    let mut out = vec![];
    for (path, _) in levels(gs) {
        let lv = level(gs, &path);
        for (gi, g) in lv.iter().enumerate() {
            for (ei, e) in g.elems.iter().enumerate() {
                let n = match &e.node {
                    Node::Leaf(b) => b.len(),
                    Node::Struct(inner) => assemble(inner).len(),
                };
                out.push((path.clone(), gi, ei, n));
            }
        }
    }
    out
}

/// R3: re-announce a container `k` bytes shorter (k > 0) or the APDU itself (which = None): the result is an error or
/// exactly what the reference decoder reads from the same bytes.
pub fn check_reannounce(t: &Table, e: &TypeEntry, v: &Val, which: Option<(Path, usize, usize)>, k: usize, suffix: &[u8]) -> CheckResult {
    let l = &t[e.name];
    let input = json!({"type": e.name, "value": v, "which": which, "k": k, "suffix": hex(suffix)});
    let Ok(mut gs) = build(t, l, v) else { return Ok(()) };
    let mut bytes;
    match &which {
        Some((path, gi, ei)) => {
            if !levels(&gs).iter().any(|(p, _)| p == path) {
                return Ok(());
            }
            let lv = level_mut(&mut gs, path);
            let Some(el) = lv.get_mut(*gi).and_then(|g| g.elems.get_mut(*ei)) else { return Ok(()) };
            if !matches!(el.len, Len::Tlv | Len::Llv | Len::Lllv) {
                return Ok(());
            }
            let n = match &el.node {
                Node::Leaf(b) => b.len(),
                Node::Struct(inner) => assemble(inner).len(),
            };
            if k == 0 || k > n {
                return Ok(());
            }
            el.announce = Some(n - k);
            let Some(b) = assemble_top(l, &gs) else { return Ok(()) };
            bytes = b;
        }
        None => {
            let Some((c, i)) = l.ctrl else { return Ok(()) };
            let body = assemble(&gs);
            if k == 0 || k > body.len() {
                return Ok(());
            }
            let Ok(mut b) = apdu(c, i, &body[..body.len() - k]) else { return Ok(()) };
            b.extend_from_slice(&body[body.len() - k..]);
            bytes = b;
        }
    }
    bytes.extend_from_slice(suffix);
    let real = guard(|| (e.decode)(&bytes)).map_err(|p| Violation::new("reannounce", format!("C14 type={} rel=shortened-length kind=panic", e.name), format!("decoding {} panicked: {p}", clip(&hex(&bytes), 300)), input.clone()))?;
    let reference = decode(t, l, &bytes);
    match (real, reference) {
        (Err(_), _) => Ok(()),
        (Ok(_), Err(_)) => Ok(()), // the reference is stricter here; no verdict (counted by the caller)
        (Ok((d, rest)), Ok((rv, rrest))) => {
            if d == render(&rv) && rest == rrest.len() {
                Ok(())
            } else {
                Err(Violation::new(
                    "reannounce",
                    format!("C14 type={} rel=shortened-length target={} kind=sees-bytes-outside-length", e.name, if which.is_some() { "container" } else { "apdu" }),
                    format!("length re-announced {k} byte(s) shorter in {}\n  result ({}, {rest} left)\n  reading of exactly the announced bytes ({}, {} left)", clip(&hex(&bytes), 300), clip(&d, 400), clip(&render(&rv), 400), rrest.len()),
                    input,
                ))
            }
        }
    }
}

pub fn replay(check: &str, i: &Value) -> Option<CheckResult> {
    if check == "lab" {
        return crate::props::c12::replay_for(P, i);
    }
    if check == "datetime" {
        let t = crate::table();
        let name = i.get("type")?.as_str()?;
        let bytes = unhex(i.get("bytes")?.as_str()?);
        let e = types().into_iter().find(|e| e.name == name)?;
        let got = guard(|| (e.decode)(&bytes));
        let want = decode(&t, &t[name], &bytes);
        return Some(match (got, want) {
            (Ok(Ok((d, rest))), Ok((w, wrest))) if d == render(&w) && rest == wrest.len() => Ok(()),
            (Ok(Err(_)), Err(_)) => Ok(()),
            (g, _) => Err(Violation::new("datetime", format!("C14 type={name} rel=short-date-time-object kind=reads-beyond-the-object"), format!("{g:?}"), i.clone())),
        });
    }
    let t = crate::table();
    let name = i.get("type")?.as_str()?;
    let v: Val = serde_json::from_value(i.get("value")?.clone()).ok()?;
    let e = types().into_iter().find(|e| e.name == name)?;
    if !is_canonical(&t, &t[name], &v) {
        return Some(Ok(()));
    }
    let suffix = unhex(i.get("suffix")?.as_str()?);
    Some(match check {
        "suffix" => check_suffix(&t, &e, &v, &suffix),
        "reannounce" => {
            let which: Option<(Path, usize, usize)> = serde_json::from_value(i.get("which")?.clone()).ok()?;
            check_reannounce(&t, &e, &v, which, i.get("k")?.as_u64()? as usize, &suffix)
        }
        "edit" => return crate::props::c13::replay(check, i),
        _ => return None,
    })
}

fn greedy_tail(l: &Layout) -> bool {
    l.fields.last().map(|f| matches!(f.enc, Enc::Cp437 | Enc::Hex | Enc::Utf8 | Enc::Bytes | Enc::Bcd(_) | Enc::Struct(_)) || f.card == Card::Vec).unwrap_or(false)
}

pub fn run(tier: Tier) -> i32 {
    let ctx = Ctx::new(P, "exploration", tier);
    let mut stats = Stats::new();
    stats.sample_cap = 8;
    crate::run_regressions(&ctx, &mut stats, replay);
    let t = crate::table();
    let tys = types();
    let cmds: Vec<usize> = (0..tys.len()).filter(|i| t[tys[*i].name].ctrl.is_some()).collect();
    assert_eq!(cmds.len(), 31);
    let per_type: u32 = tier.pick(250, 6000);
    let parts: u64 = tier.pick(1, 8);
    // a valid packet used as suffix
    let other_packet = vec![0x06u8, 0x0f, 0x02, 0x27, 0x00];
    // R1: every command x values x suffix set (each single byte 0..255, another packet, random)
    let s = ctx.shards("apdu-suffix", cmds.len() as u64 * parts, |i, seed, st| {
        let e = &tys[cmds[(i % cmds.len() as u64) as usize]];
        let l = t[e.name].clone();
        let strat = (strategy_for(&t, e.name, GenCfg { vec_max: 3, text_max: 300, blob_max: 300 }), proptest::collection::vec(any::<u8>(), 1..=64), prop_oneof![Just(None), (253usize..=257).prop_map(Some)]);
        ctx.proptest(seed, per_type / parts as u32, &strat, st, |(v0, rnd, target), st| {
            let mut v = v0.clone();
            if let Some(tg) = target {
                if let Some(p) = pump(&t, &l, &v, *tg) {
                    v = p;
                }
            }
            if !is_canonical(&t, &l, &v) {
                st.class("discarded-non-canonical");
                return Ok(());
            }
            let h = fnv(&encode(&t, &l, &v).unwrap()) ^ fnv_str(e.name);
            let greedy = greedy_tail(&l);
            let mut one = |suffix: &[u8], kind: &str, st: &mut Stats| -> CheckResult {
                st.case(!suffix.is_empty() && greedy, h ^ fnv(suffix).rotate_left(17));
                st.class(kind);
                check_suffix(&t, e, &v, suffix)
            };
            one(&[], "suffix:empty", st)?;
            for b in 0..=255u8 {
                one(&[b], "suffix:single-byte", st)?;
            }
            one(&other_packet, "suffix:valid-packet", st)?;
            one(rnd, "suffix:random", st)?;
            if st.samples.len() < 1 && i < cmds.len() as u64 {
                st.sample(|| json!({"relation": "apdu-suffix", "type": e.name, "value": clip(&render(&v), 200), "suffixes": "'', 00..ff, 060f022700, random"}));
            }
            Ok(())
        });
    });
    stats.merge(s);
    // R2: a foreign group behind every nested container / at the end of every nested level (shares the C13 oracle);
    // R3: every TLV/LLVAR/LLLVAR container (and the APDU) re-announced 1..3 bytes shorter
    let per_type2: u32 = tier.pick(120, 3000);
    let s = ctx.shards("containers", tys.len() as u64 * parts, |i, seed, st| {
        let e = &tys[(i % tys.len() as u64) as usize];
        let l = t[e.name].clone();
        let strat = (strategy_for(&t, e.name, GenCfg { vec_max: 3, text_max: 60, blob_max: 60 }), proptest::collection::vec(any::<u8>(), 0..=6));
        ctx.proptest(seed, per_type2 / parts as u32, &strat, st, |(v, suffix), st| {
            if !is_canonical(&t, &l, v) {
                st.class("discarded-non-canonical");
                return Ok(());
            }
            let gs = build(&t, &l, v).unwrap();
            let h = fnv(&assemble(&gs)) ^ fnv_str(e.name);
            // R2
            for (path, edit) in crate::props::c13::edits_of(&t, e.name, v, 0, 0) {
                if let crate::props::c13::Edit::Foreign { .. } = &edit {
                    if path.is_empty() && l.ctrl.is_none() {
                        continue;
                    }
                    st.case(true, h ^ fnv(&serde_json::to_vec(&(&path, &edit)).unwrap()));
                    st.class("container-suffix:foreign-group");
                    crate::props::c13::check_edit(&t, e, v, &path, &edit).map_err(|mut v| {
                        v.sig = v.sig.replace("C13 ", "C14 rel=container-suffix ");
                        v
                    })?;
                }
            }
            // R3
            let sfx: &[u8] = if l.ctrl.is_some() { suffix } else { &[] };
            for k in 1..=3usize {
                if l.ctrl.is_some() {
                    st.case(true, h ^ (k as u64) << 56);
                    st.class("shortened-length:apdu");
                    check_reannounce(&t, e, v, None, k, sfx)?;
                }
                for (path, gi, ei, n) in all_elems(&gs) {
                    if n < k {
                        continue;
                    }
                    let el = &level(&gs, &path)[gi].elems[ei];
                    if !matches!(el.len, Len::Tlv | Len::Llv | Len::Lllv) {
                        continue;
                    }
                    st.case(true, h ^ fnv(&serde_json::to_vec(&(&path, gi, ei, k)).unwrap()));
                    st.class(if path.is_empty() { "shortened-length:container" } else { "shortened-length:nested-container" });
                    if st.samples.len() < 2 && i < tys.len() as u64 && !path.is_empty() {
                        st.sample(|| json!({"relation": "shortened-length", "type": e.name, "value": clip(&render(v), 200), "container": lv_name(&gs, &path, gi), "shorter_by": k}));
                    }
                    check_reannounce(&t, e, v, Some((path.clone(), gi, ei)), k, sfx)?;
                }
            }
            Ok(())
        });
    });
    stats.merge(s);
    // R4: the date and time objects inside a date/time value are length-prefixed themselves: an object announced shorter than
    //     usual (date in 3 / 2 / 1 bytes, time in 2 / 1 bytes - right-aligned numbers for the reference reading) is read from
    //     its own bytes only, whatever stands behind it (the other object, the end of the container, a suffix behind the packet)
    {
        let tys2 = types();
        let mut st = Stats::new();
        for e in tys2.iter().filter(|e| matches!(e.name, "ReceiptPrintoutCompletion" | "tlv.ReceiptPrintoutCompletion")) {
            let l = t[e.name].clone();
            for (k, v) in ctx.sample_values(ctx.seed_for("datetime-short", fnv_str(e.name)), tier.pick(150, 2_000), &strategy_for(&t, e.name, GenCfg::small())).iter().enumerate() {
                if !is_canonical(&t, &l, v) {
                    continue;
                }
                let Ok(mut gs) = build(&t, &l, v) else { continue };
                let Some(el) = crate::props::c13::find_datetime(&mut gs) else { continue };
                let Node::Leaf(b) = &el.node else { continue };
                if b.len() != 13 {
                    continue;
                }
                let (date, time) = (b[3..7].to_vec(), b[10..13].to_vec());
                let obj = |tag: u8, val: &[u8]| -> Vec<u8> {
                    let mut o = vec![0x1f, tag, val.len() as u8];
                    o.extend_from_slice(val);
                    o
                };
                let variants: Vec<Vec<u8>> = vec![
                    [obj(0x0f, &time), obj(0x0e, &date[1..])].concat(),
                    [obj(0x0e, &date[1..]), obj(0x0f, &time)].concat(),
                    [obj(0x0e, &date[2..]), obj(0x0f, &time)].concat(),
                    [obj(0x0e, &date), obj(0x0f, &time[1..])].concat(),
                    [obj(0x0f, &time[1..]), obj(0x0e, &date)].concat(),
                    [obj(0x0f, &time[2..]), obj(0x0e, &date[3..])].concat(),
                ];
                for (vi, leaf) in variants.iter().enumerate() {
                    let mut g2 = gs.clone();
                    crate::props::c13::find_datetime(&mut g2).unwrap().node = Node::Leaf(leaf.clone());
                    let Some(p) = assemble_top(&l, &g2) else { continue };
                    for sfx in [&[][..], &[0x01], &[0x20, 0x23, 0x12, 0x31], &[0x1f, 0x0e, 0x04, 0x20, 0x23, 0x04, 0x05]] {
                        if !sfx.is_empty() && l.ctrl.is_none() {
                            continue;
                        }
                        let mut bytes = p.clone();
                        bytes.extend_from_slice(sfx);
                        let input = json!({"type": e.name, "bytes": hex(&bytes), "variant": vi});
                        st.case(true, fnv(&bytes) ^ k as u64);
                        st.class("date-time-object-announced-shorter");
                        let got = guard(|| (e.decode)(&bytes));
                        let want = decode(&t, &l, &bytes);
                        let r: CheckResult = match (got, want) {
                            (Err(pn), _) => Err(Violation::new("datetime", format!("C14 type={} rel=short-date-time-object kind=panic", e.name), pn, input)),
                            (Ok(Ok((d, rest))), Ok((w, wrest))) if d == render(&w) && rest == wrest.len() => Ok(()),
                            (Ok(Err(_)), Err(_)) => Ok(()),
                            (Ok(g), w) => Err(Violation::new(
                                "datetime",
                                format!("C14 type={} rel=short-date-time-object kind=reads-beyond-the-object", e.name),
                                format!("bytes {}\n  decode to {:?}\n  the reference reading (each object from its own announced bytes) is {:?}", clip(&hex(&bytes), 300), g.map(|(d, r)| (clip(&d, 200), r)), w.map(|(v, r)| (clip(&render(&v), 200), r.len())).map_err(|e| format!("{e:?}"))),
                                input,
                            )),
                        };
                        ctx.record(r, &mut st);
                    }
                }
            }
        }
        stats.merge(st);
    }
    // the same relations on generated command structs (layouts no shipped packet has)
    match crate::props::c12::lab_side(P, &ctx, tier) {
        Ok(mut s) => {
            let vs = std::mem::take(&mut s.violations);
            stats.merge(s);
            for v in vs {
                ctx.record(Err(v), &mut stats);
            }
        }
        Err(code) => return code,
    }
    ctx.finish(
        stats,
        "R1: 31 commands x proptest-generated canonical values (incl. bodies pumped to 253..257) x suffixes {empty, every single byte 00..ff, a valid packet, random <= 64 bytes}: decode(packet || s) = (value, s). R2: a group with a tag unknown to the whole tree behind every nested container and at the end of every nested level. R3: every TLV/LLVAR/LLLVAR container at any depth, and the APDU, re-announced 1..3 bytes shorter: error, or exactly the reference reading of the announced bytes. R4: date / time objects announced shorter than usual inside a date/time value (both orders, with and without a suffix behind the packet) read from their own bytes only (reference reading). non-trivial = non-empty suffix behind a packet whose last field is greedy (R1), every R2/R3 case; distinct by (type, value, suffix / container, k). Generated structs: a program of random #[derive(Zvt)] command definitions (C12's generator) is compiled against /repo's macro in a private lab crate and R1 (5 suffixes) and R3 (APDU re-announced one byte shorter) are applied to canonical values of each (classes prefixed lab:)",
        &["R3 compares with the reference decoder only when both accept; an input the reference rejects gives no verdict", "R2 shares the foreign-tag oracle of C13"],
        false,
    )
}

fn lv_name(gs: &[Group], path: &[(usize, usize)], gi: usize) -> String {
    level(gs, path)[gi].name.clone()
}
