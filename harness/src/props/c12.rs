//! C12 — the derive macro implements the declared layout for any user-defined struct.
//! Generator of random `#[derive(Zvt)]` programs from the well-formed attribute grammar (DESIGN.md Appendix D).
//! The generator emits (a) Rust source compiled against /repo's macro and (b) its own description as layout-table
//! entries; the lab binary (lab/) then compares generated code with the reference codec interpreting (b).
use crate::engine::*;
use proptest::prelude::*;
use serde_json::Value;

#[derive(Clone, Debug, PartialEq)]
pub enum Ty {
    Int(&'static str, u32),
    Str,
    Struct(usize),
}
#[derive(Clone, Debug, PartialEq)]
pub enum LenK {
    Empty,
    Fixed(usize),
    Llv,
    Lllv,
    Tlv,
}
#[derive(Clone, Copy, Debug, PartialEq)]
pub enum EncK {
    Default,
    BigEndian,
    Bcd,
    Hex,
    Utf8,
}
#[derive(Clone, Copy, Debug, PartialEq)]
pub enum CardK {
    One,
    Opt,
    Vec,
}
#[derive(Clone, Debug)]
pub struct FieldDef {
    pub card: CardK,
    pub tag: Option<u16>,
    pub tlv_attr: bool,
    pub ty: Ty,
    pub len: LenK,
    pub enc: EncK,
    pub order: u8,
}
#[derive(Clone, Debug)]
pub struct StructDef {
    pub ctrl: Option<(u8, u8)>,
    pub fields: Vec<FieldDef>,
    pub depth: u32,
    /// every field positional, mandatory and self-delimiting: may be nested without a length prefix
    pub self_delimiting: bool,
}

/// raw material for one struct before the well-formedness fix-up
#[derive(Clone, Debug)]
pub struct RawField {
    pub kind: u8,
    pub int_ty: u8,
    pub int_enc: u8,
    pub len: u8,
    pub fixed_n: u8,
    pub card: u8,
    pub tag_sel: u16,
    pub tag_form: u8,
    pub tlv_attr: bool,
    pub nest_sel: u16,
    pub order: u8,
}
#[derive(Clone, Debug)]
pub struct RawStruct {
    pub cmd: Option<(u8, u8)>,
    pub npos: u8,
    pub fields: Vec<RawField>,
}

pub fn raw_struct_strategy() -> impl Strategy<Value = RawStruct> {
    let field = (0u8..7, 0u8..5, 0u8..3, 0u8..8, 1u8..=12, 0u8..6, any::<u16>(), 0u8..4, any::<bool>(), any::<u16>(), 0u8..24)
        .prop_map(|(kind, int_ty, int_enc, len, fixed_n, card, tag_sel, tag_form, tlv_attr, nest_sel, order)| RawField { kind, int_ty, int_enc, len, fixed_n, card, tag_sel, tag_form, tlv_attr, nest_sel, order });
    (proptest::option::weighted(0.35, (any::<u8>(), any::<u8>())), 0u8..=5, proptest::collection::vec(field, 1..=8)).prop_map(|(cmd, npos, fields)| RawStruct { cmd, npos, fields })
}

const INTS: [(&str, u32); 5] = [("u8", 8), ("u16", 16), ("u32", 32), ("u64", 64), ("usize", 64)];

fn greedy_field(f: &FieldDef, defs: &[StructDef]) -> bool {
    // consumes "the rest": no length prefix and a payload without intrinsic size
    if f.len != LenK::Empty {
        return false;
    }
    match &f.ty {
        Ty::Int(..) => f.enc == EncK::Bcd,
        Ty::Str => true,
        Ty::Struct(i) => !defs[*i].self_delimiting,
    }
}

/// Turn raw choices into a well-formed struct (Appendix D constraints are established by construction).
pub fn well_formed(raw: &RawStruct, defs: &[StructDef]) -> StructDef {
    let n = raw.fields.len();
    let npos = (raw.npos as usize).min(n);
    let mut used: Vec<u16> = vec![];
    let mut fields: Vec<FieldDef> = vec![];
    let mut depth = 0;
    for (j, r) in raw.fields.iter().enumerate() {
        let positional = j < npos;
        let last = j + 1 == n;
        // type and encoding
        let nestable: Vec<usize> = (0..defs.len()).filter(|i| defs[*i].ctrl.is_none() && defs[*i].depth < 2).collect();
        let (ty, enc) = match r.kind {
            0 | 1 => {
                let (n, b) = INTS[r.int_ty as usize % 5];
                (Ty::Int(n, b), [EncK::Default, EncK::BigEndian, EncK::Bcd][r.int_enc as usize % 3])
            }
            2 => {
                let (n, b) = INTS[r.int_ty as usize % 5];
                (Ty::Int(n, b), EncK::Bcd)
            }
            3 => (Ty::Str, EncK::Default),
            4 => (Ty::Str, EncK::Hex),
            5 => (Ty::Str, EncK::Utf8),
            _ => {
                if nestable.is_empty() {
                    (Ty::Int("u8", 8), EncK::Default)
                } else {
                    (Ty::Struct(nestable[(r.nest_sel as usize * nestable.len()) >> 16]), EncK::Default)
                }
            }
        };
        // length style
        let mut len = match r.len {
            0 | 1 => LenK::Empty,
            2 => LenK::Fixed(r.fixed_n as usize),
            3 => LenK::Llv,
            4 => LenK::Lllv,
            _ => LenK::Tlv,
        };
        match (&ty, enc) {
            (Ty::Int(_, b), EncK::Default | EncK::BigEndian) => {
                if let LenK::Fixed(_) = len {
                    len = LenK::Fixed((*b / 8) as usize);
                }
            }
            (Ty::Int(_, b), _) => {
                // BCD: Fixed<N> with N <= 10 and a value range that fits the type
                if let LenK::Fixed(k) = len {
                    let maxn = match b {
                        8 => 1,
                        16 => 2,
                        32 => 4,
                        _ => 9,
                    };
                    len = LenK::Fixed(k.clamp(1, maxn));
                }
            }
            (Ty::Str, EncK::Utf8) => {
                if let LenK::Fixed(_) = len {
                    len = LenK::Lllv;
                }
            }
            (Ty::Struct(i), _) => {
                // nested structs: without prefix only when self-delimiting, otherwise inside TLV / LLLVAR
                len = match len {
                    LenK::Empty if defs[*i].self_delimiting => LenK::Empty,
                    LenK::Lllv => LenK::Lllv,
                    _ => LenK::Tlv,
                };
                depth = depth.max(defs[*i].depth + 1);
            }
            _ => {}
        }
        let mut card = match r.card {
            0 | 1 => CardK::One,
            2 | 3 => CardK::Opt,
            _ => CardK::Vec,
        };
        let tag = if positional {
            None
        } else {
            let mut t = match r.tag_form {
                0 | 1 => r.tag_sel % 0xff,
                2 => 0x1f00 | (r.tag_sel & 0xff),
                _ => 0xff00 | (r.tag_sel & 0xff),
            };
            while t == 0x1f || used.contains(&t) {
                t = if t < 0x100 { (t + 1) % 0xff } else { (t & 0xff00) | ((t + 1) & 0xff) };
            }
            used.push(t);
            Some(t)
        };
        let tlv_attr = tag.is_some() && r.tlv_attr;
        if tlv_attr {
            len = LenK::Tlv;
        }
        let mut f = FieldDef { card, tag, tlv_attr, ty, len, enc, order: r.order };
        // a greedy payload only as the very last field, and never repeated
        if greedy_field(&f, defs) {
            if !last {
                f.len = match f.ty {
                    Ty::Int(..) => LenK::Llv,
                    _ => LenK::Tlv,
                };
            } else if card == CardK::Vec {
                card = CardK::Opt;
            }
        }
        // positional vectors: only as the last field of the struct, with self-delimiting elements
        if positional && card == CardK::Vec {
            let selfdelim = match (&f.ty, &f.len) {
                (_, LenK::Llv | LenK::Lllv | LenK::Tlv) => true,
                (Ty::Int(..), LenK::Empty) => f.enc != EncK::Bcd,
                _ => false,
            };
            if !(last && selfdelim) {
                card = CardK::One;
            }
        }
        f.card = card;
        fields.push(f);
    }
    // a positional Option only if nothing mandatory follows (otherwise absent values are not representable)
    let mut mandatory_follows = false;
    for f in fields.iter_mut().rev() {
        if f.tag.is_none() && f.card == CardK::Opt && mandatory_follows {
            f.card = CardK::One;
        }
        if f.card == CardK::One {
            mandatory_follows = true;
        }
    }
    let self_delimiting = fields.iter().all(|f| f.tag.is_none() && f.card == CardK::One && !greedy_field(f, defs) && (f.len != LenK::Empty || !matches!(f.ty, Ty::Str)));
    StructDef { ctrl: raw.cmd, fields, depth, self_delimiting }
}

fn rust_len(l: &LenK) -> Option<String> {
    match l {
        LenK::Empty => None,
        LenK::Fixed(n) => Some(format!("length::Fixed<{n}>")),
        LenK::Llv => Some("length::Llv".into()),
        LenK::Lllv => Some("length::Lllv".into()),
        LenK::Tlv => Some("length::Tlv".into()),
    }
}
fn rust_enc(e: EncK) -> Option<&'static str> {
    match e {
        EncK::Default => None,
        EncK::BigEndian => Some("encoding::BigEndian"),
        EncK::Bcd => Some("encoding::Bcd"),
        EncK::Hex => Some("encoding::Hex"),
        EncK::Utf8 => Some("encoding::Utf8"),
    }
}
fn permute(mut parts: Vec<String>, order: u8) -> Vec<String> {
    let n = parts.len();
    if n > 1 {
        parts.rotate_left(order as usize % n);
        if order % 2 == 1 {
            parts.reverse();
        }
    }
    parts
}

/// how a container type is written: 0, 1 = `Option<T>` / `Vec<T>`, 2 = `std::` path, 3 = path with leading `::`
fn spelling(f: &FieldDef) -> u8 {
    if f.card == CardK::One { 0 } else { (f.order / 6) % 4 }
}

pub fn struct_name(i: usize) -> String {
    format!("S{i}")
}

/// Rust source of struct `i`.
pub fn rust_source(i: usize, d: &StructDef) -> String {
    let mut s = String::from("#[derive(Debug, Default, PartialEq, Zvt)]\n");
    if let Some((c, k)) = d.ctrl {
        s += &format!("#[zvt_control_field(class = {c:#04x}, instr = {k:#04x})]\n");
    }
    s += &format!("pub struct {} {{\n", struct_name(i));
    for (j, f) in d.fields.iter().enumerate() {
        let base = match &f.ty {
            Ty::Int(n, _) => n.to_string(),
            Ty::Str => "String".into(),
            Ty::Struct(k) => struct_name(*k),
        };
        let ty = match f.card {
            CardK::One => base,
            // a quarter each of the container types is spelled with a path (`std::..`, `::core::..`): the same type, so the
            // same layout
            CardK::Opt => match spelling(f) {
                2 => format!("std::option::Option<{base}>"),
                3 => format!("::core::option::Option<{base}>"),
                _ => format!("Option<{base}>"),
            },
            CardK::Vec => match spelling(f) {
                2 => format!("std::vec::Vec<{base}>"),
                3 => format!("::std::vec::Vec<{base}>"),
                _ => format!("Vec<{base}>"),
            },
        };
        let mut parts: Vec<String> = vec![];
        if f.tlv_attr {
            parts.push(format!("tag = {:#x}", f.tag.unwrap()));
            if let Some(e) = rust_enc(f.enc) {
                parts.push(format!("encoding = {e}"));
            }
            s += &format!("    #[zvt_tlv({})]\n", permute(parts, f.order).join(", "));
        } else {
            if let Some(t) = f.tag {
                parts.push(if f.order % 3 == 0 { format!("number = {t}") } else { format!("number = {t:#x}") });
            }
            if let Some(l) = rust_len(&f.len) {
                parts.push(format!("length = {l}"));
            }
            if let Some(e) = rust_enc(f.enc) {
                parts.push(format!("encoding = {e}"));
            }
            if !parts.is_empty() {
                s += &format!("    #[zvt_bmp({})]\n", permute(parts, f.order).join(", "));
            }
        }
        s += &format!("    pub f{j}: {ty},\n");
    }
    s += "}\n";
    s
}

/// The generator's own description of struct `i` as a layout-table entry.
pub fn table_entry(i: usize, d: &StructDef) -> String {
    let mut s = format!("struct lab.{}", struct_name(i));
    if let Some((c, k)) = d.ctrl {
        s += &format!(" cmd {c:02x} {k:02x}");
    }
    s.push('\n');
    for (j, f) in d.fields.iter().enumerate() {
        let card = match f.card {
            CardK::One => "one",
            CardK::Opt => "opt",
            CardK::Vec => "vec",
        };
        let tag = f.tag.map(|t| format!("{t:x}")).unwrap_or("-".into());
        let len = match &f.len {
            LenK::Empty => "none".to_string(),
            LenK::Fixed(n) => format!("fixed{n}"),
            LenK::Llv => "llv".into(),
            LenK::Lllv => "lllv".into(),
            LenK::Tlv => "tlv".into(),
        };
        let enc = match (&f.ty, f.enc) {
            (Ty::Int(_, b), EncK::Default) => format!("le{b}"),
            (Ty::Int(_, b), EncK::BigEndian) => format!("be{b}"),
            (Ty::Int(_, b), _) => format!("bcd{b}"),
            (Ty::Str, EncK::Hex) => "hex".into(),
            (Ty::Str, EncK::Utf8) => "utf8".into(),
            (Ty::Str, _) => "cp437".into(),
            (Ty::Struct(k), _) => format!("struct:lab.{}", struct_name(*k)),
        };
        s += &format!("  f{j} {card} {tag} {len} {enc}\n");
    }
    s
}

/// table text of a parsed layout (for evidence samples)
pub fn table_text(l: &crate::refc::Layout) -> String {
    l.fields.iter().map(|f| format!("{} {:?} {:?} {:?} {:?}", f.name, f.card, f.tag.map(|t| format!("{t:x}")), f.len, f.enc)).collect::<Vec<_>>().join("; ")
}

/// short descriptor of a struct's shape, used in signatures (names change with the seed, shapes do not)
pub fn shape_of(d: &StructDef) -> String {
    d.fields
        .iter()
        .map(|f| {
            format!(
                "{}{}{}:{}:{}",
                match f.card {
                    CardK::One => "",
                    CardK::Opt => if spelling(f) >= 2 { "?q" } else { "?" },
                    CardK::Vec => if spelling(f) >= 2 { "*q" } else { "*" },
                },
                if f.tag.is_some() { "T" } else { "P" },
                if f.tlv_attr { "t" } else { "" },
                match &f.len {
                    LenK::Empty => "e".to_string(),
                    LenK::Fixed(n) => format!("f{n}"),
                    LenK::Llv => "ll".into(),
                    LenK::Lllv => "lll".into(),
                    LenK::Tlv => "tlv".into(),
                },
                match (&f.ty, f.enc) {
                    (Ty::Int(n, _), EncK::Default) => format!("le-{n}"),
                    (Ty::Int(n, _), EncK::BigEndian) => format!("be-{n}"),
                    (Ty::Int(n, _), _) => format!("bcd-{n}"),
                    (Ty::Str, EncK::Hex) => "hex".into(),
                    (Ty::Str, EncK::Utf8) => "utf8".into(),
                    (Ty::Str, _) => "cp437".into(),
                    (Ty::Struct(_), _) => "struct".into(),
                }
            )
        })
        .collect::<Vec<_>>()
        .join(",")
}

pub fn generate_program(ctx: &Ctx, batch: u64, n: usize) -> Vec<StructDef> {
    let raws = ctx.sample_values(ctx.seed_for("program", batch), n, &raw_struct_strategy());
    let mut defs: Vec<StructDef> = vec![];
    for r in &raws {
        let d = well_formed(r, &defs);
        defs.push(d);
    }
    // directed shape families the uniform grammar walk reaches too rarely (each instance with random parameters)
    let k = (n / 25).max(4);
    for e in ctx.sample_values(ctx.seed_for("directed", batch), k, &proptest::collection::vec(any::<u16>(), 96)) {
        directed_family(&mut Entropy { words: e, at: 0 }, &mut defs);
    }
    defs
}

struct Entropy {
    words: Vec<u16>,
    at: usize,
}
impl Entropy {
    fn next(&mut self) -> u16 {
        let w = self.words[self.at % self.words.len()];
        self.at += 1;
        w
    }
    fn below(&mut self, n: usize) -> usize {
        (self.next() as usize * n) >> 16
    }
}

/// a scalar field that delimits itself (fixed-size integer or length-prefixed payload): safe at any position
fn scalar_field(e: &mut Entropy, tag: Option<u16>, card: CardK) -> FieldDef {
    let (n, b) = INTS[e.below(5)];
    let (ty, enc, len) = match e.below(8) {
        0 => (Ty::Int(n, b), EncK::Default, LenK::Empty),
        1 => (Ty::Int(n, b), EncK::BigEndian, LenK::Empty),
        2 => (Ty::Int(n, b), EncK::Bcd, [LenK::Llv, LenK::Tlv, LenK::Fixed(1)][e.below(3)].clone()),
        3 => (Ty::Int(n, b), EncK::Default, LenK::Fixed((b / 8) as usize)),
        4 => (Ty::Str, EncK::Default, [LenK::Llv, LenK::Lllv, LenK::Tlv][e.below(3)].clone()),
        5 => (Ty::Str, EncK::Hex, [LenK::Llv, LenK::Lllv, LenK::Tlv][e.below(3)].clone()),
        6 => (Ty::Str, EncK::Utf8, [LenK::Llv, LenK::Lllv, LenK::Tlv][e.below(3)].clone()),
        _ => (Ty::Int("u8", 8), EncK::Default, LenK::Empty),
    };
    let tlv_attr = tag.is_some() && len == LenK::Tlv && e.below(2) == 0;
    FieldDef { card, tag, tlv_attr, ty, len, enc, order: e.below(24) as u8 }
}
fn fresh_tag(e: &mut Entropy, used: &mut Vec<u16>) -> u16 {
    // every third tag is a look-alike of one already in use: the same low byte in another tag family (one byte, 1fXX, ffXX)
    if !used.is_empty() && e.below(3) == 0 {
        let low = used[e.below(used.len())] & 0xff;
        for t in [0x1f00 | low, 0xff00 | low, low] {
            if t != 0x1f && t != 0xff && !used.contains(&t) {
                used.push(t);
                return t;
            }
        }
    }
    loop {
        let t = match e.below(5) {
            0 => 0x1f00 | (e.next() & 0xff),
            1 => 0xff00 | (e.next() & 0xff),
            _ => e.next() % 0xff,
        };
        if t != 0x1f && !used.contains(&t) {
            used.push(t);
            return t;
        }
    }
}

/// One instance of the directed families:
///  - `Inner`: tagged fields only, at least one of them mandatory (so that "absent" decodes to an error, not to an empty value);
///  - `Tail`: 0..2 self-delimiting positional fields, then `Option<Inner>` (or `Inner`) positional and WITHOUT a length prefix
///    as the last field;
///  - `Mid`: the same, followed by tagged fields of the enclosing struct whose tags differ from `Inner`'s;
///  - `Deep`: `Mid` / `Tail` as an optional length-prefixed member one level further out;
///  - `Group`: a self-delimiting struct nested without length prefix in front of a few positional fields (a lone trailing
///    byte 1f / ff is not the start of a tag);
///  - `Many`: 3..6 mandatory tagged fields (plus optional ones) in one struct.
fn directed_family(e: &mut Entropy, defs: &mut Vec<StructDef>) {
    let mut used: Vec<u16> = vec![];
    // Inner
    let nreq = 1 + e.below(2);
    let nopt = e.below(3);
    let mut fields = vec![];
    for _ in 0..nreq {
        let t = fresh_tag(e, &mut used);
        fields.push(scalar_field(e, Some(t), CardK::One));
    }
    for _ in 0..nopt {
        let t = fresh_tag(e, &mut used);
        let card = if e.below(4) == 0 { CardK::Vec } else { CardK::Opt };
        let mut f = scalar_field(e, Some(t), card);
        if card == CardK::Vec && f.len == LenK::Empty {
            f.len = LenK::Llv; // repeated elements carry their own length
            f.enc = if matches!(f.ty, Ty::Int(..)) { EncK::Bcd } else { f.enc };
        }
        fields.push(f);
    }
    let rot = e.below(fields.len());
    fields.rotate_left(rot);
    defs.push(StructDef { ctrl: None, fields, depth: 0, self_delimiting: false });
    let inner = defs.len() - 1;
    let open = |e: &mut Entropy, card: CardK| FieldDef { card, tag: None, tlv_attr: false, ty: Ty::Struct(inner), len: LenK::Empty, enc: EncK::Default, order: e.below(24) as u8 };
    let positional = |e: &mut Entropy| -> Vec<FieldDef> { (0..e.below(3)).map(|_| scalar_field(e, None, CardK::One)).collect() };
    // Tail
    let mut f = positional(e);
    let card = if e.below(4) == 0 { CardK::One } else { CardK::Opt };
    f.push(open(e, card));
    let ctrl = if e.below(3) == 0 { Some((e.next() as u8, e.next() as u8)) } else { None };
    defs.push(StructDef { ctrl, fields: f, depth: 1, self_delimiting: false });
    let tail = defs.len() - 1;
    // Mid
    let mut f = positional(e);
    let card = if e.below(4) == 0 { CardK::One } else { CardK::Opt };
    f.push(open(e, card));
    for _ in 0..(1 + e.below(3)) {
        let t = fresh_tag(e, &mut used);
        let card = [CardK::One, CardK::Opt, CardK::Opt][e.below(3)];
        f.push(scalar_field(e, Some(t), card));
    }
    let ctrl = if e.below(3) == 0 { Some((e.next() as u8, e.next() as u8)) } else { None };
    defs.push(StructDef { ctrl, fields: f, depth: 1, self_delimiting: false });
    let mid = defs.len() - 1;
    // Deep
    let mut f = positional(e);
    let which = if e.below(2) == 0 { tail } else { mid };
    if defs[which].ctrl.is_none() {
        let t = fresh_tag(e, &mut used);
        let tagged = e.below(2) == 0;
        f.push(FieldDef { card: CardK::Opt, tag: if tagged { Some(t) } else { None }, tlv_attr: false, ty: Ty::Struct(which), len: if e.below(2) == 0 { LenK::Tlv } else { LenK::Lllv }, enc: EncK::Default, order: e.below(24) as u8 });
        if tagged {
            let t2 = fresh_tag(e, &mut used);
            f.push(scalar_field(e, Some(t2), CardK::Opt));
        }
        defs.push(StructDef { ctrl: None, fields: f, depth: 2, self_delimiting: false });
    }
    // Group: a struct that delimits itself (1..3 positional mandatory scalars), nested WITHOUT a length prefix in front of
    // 0..2 further positional fields - the last of them often a single byte, optional in half of the cases
    let g: Vec<FieldDef> = (0..1 + e.below(3)).map(|_| scalar_field(e, None, CardK::One)).collect();
    defs.push(StructDef { ctrl: None, fields: g, depth: 0, self_delimiting: true });
    let group = defs.len() - 1;
    let mut f = (0..e.below(2)).map(|_| scalar_field(e, None, CardK::One)).collect::<Vec<_>>();
    f.push(FieldDef { card: CardK::One, tag: None, tlv_attr: false, ty: Ty::Struct(group), len: LenK::Empty, enc: EncK::Default, order: e.below(24) as u8 });
    match e.below(4) {
        0 => {}
        1 => f.push(FieldDef { card: CardK::One, tag: None, tlv_attr: false, ty: Ty::Int("u8", 8), len: LenK::Empty, enc: EncK::Default, order: 0 }),
        2 => f.push(FieldDef { card: CardK::Opt, tag: None, tlv_attr: false, ty: Ty::Int("u8", 8), len: LenK::Empty, enc: EncK::Default, order: 0 }),
        _ => {
            f.push(scalar_field(e, None, CardK::One));
            f.push(FieldDef { card: CardK::One, tag: None, tlv_attr: false, ty: Ty::Int("u8", 8), len: LenK::Empty, enc: if e.below(2) == 0 { EncK::Default } else { EncK::BigEndian }, order: 0 });
        }
    }
    let ctrl = if e.below(3) == 0 { Some((e.next() as u8, e.next() as u8)) } else { None };
    defs.push(StructDef { ctrl, fields: f, depth: 1, self_delimiting: false });
    // Many
    let mut used2: Vec<u16> = vec![];
    let mut f = positional(e);
    for _ in 0..(3 + e.below(4)) {
        let t = fresh_tag(e, &mut used2);
        f.push(scalar_field(e, Some(t), CardK::One));
    }
    for _ in 0..e.below(3) {
        let t = fresh_tag(e, &mut used2);
        f.push(scalar_field(e, Some(t), CardK::Opt));
    }
    let np = f.iter().filter(|x| x.tag.is_none()).count();
    let rot = e.below(f.len() - np);
    f[np..].rotate_left(rot);
    defs.push(StructDef { ctrl: if e.below(2) == 0 { Some((e.next() as u8, e.next() as u8)) } else { None }, fields: f, depth: 0, self_delimiting: false });
}

/// Where the generated crate of a property lives: C12 uses the committed `lab/` crate; the lab halves of other properties get
/// a private copy under `target/lab-<ID>/` (own package name, so checks of different properties can run side by side).
pub fn lab_dir(prop: &str) -> std::path::PathBuf {
    if prop == "C12" {
        verif_root().join("lab")
    } else {
        verif_root().join("target").join(format!("lab-{prop}"))
    }
}
pub fn lab_bin(prop: &str) -> std::path::PathBuf {
    let name = if prop == "C12" { "zvtlab".to_string() } else { format!("zvtlab-{}", prop.to_lowercase()) };
    verif_root().join("target").join("verif").join(name)
}
fn prepare_lab_dir(prop: &str) -> std::io::Result<std::path::PathBuf> {
    let dir = lab_dir(prop);
    std::fs::create_dir_all(dir.join("src"))?;
    if prop != "C12" {
        let base = verif_root().join("lab");
        let toml = std::fs::read_to_string(base.join("Cargo.toml"))?
            .replace("name = \"zvtlab\"", &format!("name = \"zvtlab-{}\"", prop.to_lowercase()))
            .replace("path = \"../harness\"", &format!("path = \"{}\"", verif_root().join("harness").display()));
        std::fs::write(dir.join("Cargo.toml"), toml)?;
        std::fs::copy(base.join("src").join("main.rs"), dir.join("src").join("main.rs"))?;
        if let Ok(lock) = std::fs::read(base.join("Cargo.lock")) {
            if !dir.join("Cargo.lock").exists() {
                let text = String::from_utf8_lossy(&lock).replace("name = \"zvtlab\"", &format!("name = \"zvtlab-{}\"", prop.to_lowercase()));
                std::fs::write(dir.join("Cargo.lock"), text)?;
            }
        }
    }
    Ok(dir)
}

/// Write src/gen.rs and src/gen.tbl of the property's lab crate for the given program.
pub fn write_lab(prop: &str, defs: &[StructDef]) -> std::io::Result<()> {
    let dir = prepare_lab_dir(prop)?.join("src");
    let mut rs = String::from("// generated by `zvtverif` - do not edit\n#![allow(dead_code, unused_imports)]\nuse zvt::{encoding, length, Zvt};\n\n");
    let mut tbl = String::new();
    for (i, d) in defs.iter().enumerate() {
        rs += &rust_source(i, d);
        rs.push('\n');
        tbl += &table_entry(i, d);
    }
    rs += "pub fn lab_types() -> Vec<zvtverif::registry::TypeEntry> {\n    vec![\n";
    for i in 0..defs.len() {
        rs += &format!("        zvtverif::lab_ty!(\"lab.{0}\", {0}),\n", struct_name(i));
    }
    rs += "    ]\n}\npub fn shapes() -> Vec<&'static str> {\n    vec![\n";
    for d in defs {
        rs += &format!("        {:?},\n", shape_of(d));
    }
    rs += "    ]\n}\npub const TABLE: &str = include_str!(\"gen.tbl\");\n";
    std::fs::write(dir.join("gen.rs"), rs)?;
    std::fs::write(dir.join("gen.tbl"), tbl)?;
    Ok(())
}

fn cargo_build_lab(prop: &str) -> Result<(), String> {
    let root = verif_root();
    let out = std::process::Command::new("cargo")
        .args(["build", "--quiet", "--profile", "verif"])
        .current_dir(lab_dir(prop))
        .env("CARGO_NET_OFFLINE", "true")
        .env("CARGO_TARGET_DIR", root.join("target"))
        .output()
        .map_err(|e| e.to_string())?;
    if out.status.success() {
        Ok(())
    } else {
        Err(String::from_utf8_lossy(&out.stderr).lines().filter(|l| l.starts_with("error")).take(8).collect::<Vec<_>>().join("\n"))
    }
}

pub fn run(tier: Tier) -> i32 {
    let ctx = Ctx::new("C12", "exploration", tier);
    let n = tier.pick(250usize, 2400);
    let defs = generate_program(&ctx, 0, n);
    if let Err(e) = write_lab("C12", &defs) {
        eprintln!("cannot write lab sources: {e}");
        return 2;
    }
    if let Err(e) = cargo_build_lab("C12") {
        // generated programs follow the documented grammar: a compile error is a harness problem or a macro regression
        println!("BUILD-FAILED lab crate does not compile against /repo's derive macro:\n{e}");
        return 2;
    }
    let root = verif_root();
    let status = std::process::Command::new(lab_bin("C12")).arg(tier.name()).env("VERIF_ROOT", &root).env("VERIF_SEED", ctx.seed.to_string()).env("VERIF_LAB_PROP", "C12").status();
    match status {
        Ok(s) => s.code().unwrap_or(2),
        Err(e) => {
            eprintln!("cannot run lab binary: {e}");
            2
        }
    }
}

/// The lab half of another property (C13: tagged-group edits, C14: suffix / shortened-length relations) on generated
/// structs: generates a program, builds it in the property's own lab crate, runs only that property's conditions and
/// returns the counts and violations for the caller to merge into its own evidence. Err(code) = infrastructure problem.
pub fn lab_side(prop: &'static str, ctx: &Ctx, tier: Tier) -> Result<Stats, i32> {
    let n = tier.pick(120usize, 900);
    let defs = generate_program(ctx, 0, n);
    if let Err(e) = write_lab(prop, &defs) {
        eprintln!("cannot write lab sources: {e}");
        return Err(2);
    }
    if let Err(e) = cargo_build_lab(prop) {
        println!("BUILD-FAILED lab crate does not compile against /repo's derive macro:\n{e}");
        return Err(2);
    }
    let root = verif_root();
    let stats_file = root.join("target").join(format!("lab-stats-{prop}.json"));
    let _ = std::fs::remove_file(&stats_file);
    let status = std::process::Command::new(lab_bin(prop)).arg(tier.name()).env("VERIF_ROOT", &root).env("VERIF_SEED", ctx.seed.to_string()).env("VERIF_LAB_PROP", prop).env("VERIF_LAB_STATS", &stats_file).status();
    match status.map(|s| s.code()) {
        Ok(Some(0)) => {}
        Ok(Some(2)) | Ok(None) | Err(_) => return Err(2),
        Ok(Some(c)) => {
            eprintln!("lab binary exited with {c}");
            return Err(2);
        }
    }
    let text = std::fs::read_to_string(&stats_file).map_err(|_| 2)?;
    let v: Value = serde_json::from_str(&text).map_err(|_| 2)?;
    let mut s = Stats::from_value(&v).ok_or(2)?;
    // keep the lab's classes apart from the caller's
    s.classes = s.classes.into_iter().map(|(k, n)| (format!("lab:{k}"), n)).collect();
    Ok(s)
}

/// Replay: the file carries the struct sources (with their nested dependencies) and table entries; rebuild a lab crate
/// with only those and re-run the one case.
pub fn replay(_check: &str, i: &Value) -> Option<CheckResult> {
    replay_for("C12", i)
}
pub fn replay_for(prop: &str, i: &Value) -> Option<CheckResult> {
    let src = i.get("program_rs")?.as_str()?;
    let tbl = i.get("program_tbl")?.as_str()?;
    let reg = i.get("registry_rs")?.as_str()?;
    let dir = prepare_lab_dir(prop).ok()?.join("src");
    let rs = format!("// generated by `zvtverif {prop} --replay`\n#![allow(dead_code, unused_imports)]\nuse zvt::{{encoding, length, Zvt}};\n\n{src}\n{reg}\npub const TABLE: &str = include_str!(\"gen.tbl\");\n");
    std::fs::write(dir.join("gen.rs"), rs).ok()?;
    std::fs::write(dir.join("gen.tbl"), tbl).ok()?;
    if let Err(e) = cargo_build_lab(prop) {
        return Some(Err(Violation::new("lab", format!("{prop} kind=replay-build-failed"), e, i.clone())));
    }
    let root = verif_root();
    let tmp = root.join("target").join(format!("{}-replay-case.json", prop.to_lowercase()));
    std::fs::write(&tmp, serde_json::to_string(i).ok()?).ok()?;
    let out = std::process::Command::new(lab_bin(prop)).arg("--replay-case").arg(&tmp).env("VERIF_ROOT", &root).env("VERIF_LAB_PROP", prop).output().ok()?;
    let text = String::from_utf8_lossy(&out.stdout).to_string();
    if out.status.code() == Some(0) {
        Some(Ok(()))
    } else {
        Some(Err(Violation::new("lab", i.get("sig").and_then(|s| s.as_str()).unwrap_or("lab replay").to_string(), text, i.clone())))
    }
}
