//! C12 — the derive macro implements the declared layout for any user-defined struct.
//! Generator of random `#[derive(Zvt)]` programs from the well-formed attribute grammar (DESIGN.md Appendix D).
//! The generator emits (a) Rust source compiled against /repo's macro and (b) its own description as layout-table
//! entries; the lab binary (lab/) then compares generated code with the reference codec interpreting (b).
use crate::engine::*;
use proptest::prelude::*;
use serde_json::Value;

#[derive(Clone, Debug, PartialEq)]
pub enum Ty {
    Int(&'static str, u32),
    Str,
    Struct(usize),
}
#[derive(Clone, Debug, PartialEq)]
pub enum LenK {
    Empty,
    Fixed(usize),
    Llv,
    Lllv,
    Tlv,
}
#[derive(Clone, Copy, Debug, PartialEq)]
pub enum EncK {
    Default,
    BigEndian,
    Bcd,
    Hex,
    Utf8,
}
#[derive(Clone, Copy, Debug, PartialEq)]
pub enum CardK {
    One,
    Opt,
    Vec,
}
#[derive(Clone, Debug)]
pub struct FieldDef {
    pub card: CardK,
    pub tag: Option<u16>,
    pub tlv_attr: bool,
    pub ty: Ty,
    pub len: LenK,
    pub enc: EncK,
    pub order: u8,
}
#[derive(Clone, Debug)]
pub struct StructDef {
    pub ctrl: Option<(u8, u8)>,
    pub fields: Vec<FieldDef>,
    pub depth: u32,
    /// every field positional, mandatory and self-delimiting: may be nested without a length prefix
    pub self_delimiting: bool,
}

/// raw material for one struct before the well-formedness fix-up
#[derive(Clone, Debug)]
pub struct RawField {
    pub kind: u8,
    pub int_ty: u8,
    pub int_enc: u8,
    pub len: u8,
    pub fixed_n: u8,
    pub card: u8,
    pub tag_sel: u16,
    pub tag_form: u8,
    pub tlv_attr: bool,
    pub nest_sel: u16,
    pub order: u8,
}
#[derive(Clone, Debug)]
pub struct RawStruct {
    pub cmd: Option<(u8, u8)>,
    pub npos: u8,
    pub fields: Vec<RawField>,
}

pub fn raw_struct_strategy() -> impl Strategy<Value = RawStruct> {
    let field = (0u8..7, 0u8..5, 0u8..3, 0u8..8, 1u8..=12, 0u8..6, any::<u16>(), 0u8..4, any::<bool>(), any::<u16>(), 0u8..6)
        .prop_map(|(kind, int_ty, int_enc, len, fixed_n, card, tag_sel, tag_form, tlv_attr, nest_sel, order)| RawField { kind, int_ty, int_enc, len, fixed_n, card, tag_sel, tag_form, tlv_attr, nest_sel, order });
    (proptest::option::weighted(0.35, (any::<u8>(), any::<u8>())), 0u8..=5, proptest::collection::vec(field, 1..=8)).prop_map(|(cmd, npos, fields)| RawStruct { cmd, npos, fields })
}

const INTS: [(&str, u32); 5] = [("u8", 8), ("u16", 16), ("u32", 32), ("u64", 64), ("usize", 64)];

fn greedy_field(f: &FieldDef, defs: &[StructDef]) -> bool {
    // consumes "the rest": no length prefix and a payload without intrinsic size
    if f.len != LenK::Empty {
        return false;
    }
    match &f.ty {
        Ty::Int(..) => f.enc == EncK::Bcd,
        Ty::Str => true,
        Ty::Struct(i) => !defs[*i].self_delimiting,
    }
}

/// Turn raw choices into a well-formed struct (Appendix D constraints are established by construction).
pub fn well_formed(raw: &RawStruct, defs: &[StructDef]) -> StructDef {
    let n = raw.fields.len();
    let npos = (raw.npos as usize).min(n);
    let mut used: Vec<u16> = vec![];
    let mut fields: Vec<FieldDef> = vec![];
    let mut depth = 0;
    for (j, r) in raw.fields.iter().enumerate() {
        let positional = j < npos;
        let last = j + 1 == n;
        // type and encoding
        let nestable: Vec<usize> = (0..defs.len()).filter(|i| defs[*i].ctrl.is_none() && defs[*i].depth < 2).collect();
        let (ty, enc) = match r.kind {
            0 | 1 => {
                let (n, b) = INTS[r.int_ty as usize % 5];
                (Ty::Int(n, b), [EncK::Default, EncK::BigEndian, EncK::Bcd][r.int_enc as usize % 3])
            }
            2 => {
                let (n, b) = INTS[r.int_ty as usize % 5];
                (Ty::Int(n, b), EncK::Bcd)
            }
            3 => (Ty::Str, EncK::Default),
            4 => (Ty::Str, EncK::Hex),
            5 => (Ty::Str, EncK::Utf8),
            _ => {
                if nestable.is_empty() {
                    (Ty::Int("u8", 8), EncK::Default)
                } else {
                    (Ty::Struct(nestable[(r.nest_sel as usize * nestable.len()) >> 16]), EncK::Default)
                }
            }
        };
        // length style
        let mut len = match r.len {
            0 | 1 => LenK::Empty,
            2 => LenK::Fixed(r.fixed_n as usize),
            3 => LenK::Llv,
            4 => LenK::Lllv,
            _ => LenK::Tlv,
        };
        match (&ty, enc) {
            (Ty::Int(_, b), EncK::Default | EncK::BigEndian) => {
                if let LenK::Fixed(_) = len {
                    len = LenK::Fixed((*b / 8) as usize);
                }
            }
            (Ty::Int(_, b), _) => {
                // BCD: Fixed<N> with N <= 10 and a value range that fits the type
                if let LenK::Fixed(k) = len {
                    let maxn = match b {
                        8 => 1,
                        16 => 2,
                        32 => 4,
                        _ => 9,
                    };
                    len = LenK::Fixed(k.clamp(1, maxn));
                }
            }
            (Ty::Str, EncK::Utf8) => {
                if let LenK::Fixed(_) = len {
                    len = LenK::Lllv;
                }
            }
            (Ty::Struct(i), _) => {
                // nested structs: without prefix only when self-delimiting, otherwise inside TLV / LLLVAR
                len = match len {
                    LenK::Empty if defs[*i].self_delimiting => LenK::Empty,
                    LenK::Lllv => LenK::Lllv,
                    _ => LenK::Tlv,
                };
                depth = depth.max(defs[*i].depth + 1);
            }
            _ => {}
        }
        let mut card = match r.card {
            0 | 1 => CardK::One,
            2 | 3 => CardK::Opt,
            _ => CardK::Vec,
        };
        let tag = if positional {
            None
        } else {
            let mut t = match r.tag_form {
                0 | 1 => r.tag_sel % 0xff,
                2 => 0x1f00 | (r.tag_sel & 0xff),
                _ => 0xff00 | (r.tag_sel & 0xff),
            };
            while t == 0x1f || used.contains(&t) {
                t = if t < 0x100 { (t + 1) % 0xff } else { (t & 0xff00) | ((t + 1) & 0xff) };
            }
            used.push(t);
            Some(t)
        };
        let tlv_attr = tag.is_some() && r.tlv_attr;
        if tlv_attr {
            len = LenK::Tlv;
        }
        let mut f = FieldDef { card, tag, tlv_attr, ty, len, enc, order: r.order };
        // a greedy payload only as the very last field, and never repeated
        if greedy_field(&f, defs) {
            if !last {
                f.len = match f.ty {
                    Ty::Int(..) => LenK::Llv,
                    _ => LenK::Tlv,
                };
            } else if card == CardK::Vec {
                card = CardK::Opt;
            }
        }
        // positional vectors: only as the last field of the struct, with self-delimiting elements
        if positional && card == CardK::Vec {
            let selfdelim = match (&f.ty, &f.len) {
                (_, LenK::Llv | LenK::Lllv | LenK::Tlv) => true,
                (Ty::Int(..), LenK::Empty) => f.enc != EncK::Bcd,
                _ => false,
            };
            if !(last && selfdelim) {
                card = CardK::One;
            }
        }
        f.card = card;
        fields.push(f);
    }
    // a positional Option only if nothing mandatory follows (otherwise absent values are not representable)
    let mut mandatory_follows = false;
    for f in fields.iter_mut().rev() {
        if f.tag.is_none() && f.card == CardK::Opt && mandatory_follows {
            f.card = CardK::One;
        }
        if f.card == CardK::One {
            mandatory_follows = true;
        }
    }
    let self_delimiting = fields.iter().all(|f| f.tag.is_none() && f.card == CardK::One && !greedy_field(f, defs) && (f.len != LenK::Empty || !matches!(f.ty, Ty::Str)));
    StructDef { ctrl: raw.cmd, fields, depth, self_delimiting }
}

fn rust_len(l: &LenK) -> Option<String> {
    match l {
        LenK::Empty => None,
        LenK::Fixed(n) => Some(format!("length::Fixed<{n}>")),
        LenK::Llv => Some("length::Llv".into()),
        LenK::Lllv => Some("length::Lllv".into()),
        LenK::Tlv => Some("length::Tlv".into()),
    }
}
fn rust_enc(e: EncK) -> Option<&'static str> {
    match e {
        EncK::Default => None,
        EncK::BigEndian => Some("encoding::BigEndian"),
        EncK::Bcd => Some("encoding::Bcd"),
        EncK::Hex => Some("encoding::Hex"),
        EncK::Utf8 => Some("encoding::Utf8"),
    }
}
fn permute(mut parts: Vec<String>, order: u8) -> Vec<String> {
    let n = parts.len();
    if n > 1 {
        parts.rotate_left(order as usize % n);
        if order % 2 == 1 {
            parts.reverse();
        }
    }
    parts
}

pub fn struct_name(i: usize) -> String {
    format!("S{i}")
}

/// Rust source of struct `i`.
pub fn rust_source(i: usize, d: &StructDef) -> String {
    let mut s = String::from("#[derive(Debug, Default, PartialEq, Zvt)]\n");
    if let Some((c, k)) = d.ctrl {
        s += &format!("#[zvt_control_field(class = {c:#04x}, instr = {k:#04x})]\n");
    }
    s += &format!("pub struct {} {{\n", struct_name(i));
    for (j, f) in d.fields.iter().enumerate() {
        let base = match &f.ty {
            Ty::Int(n, _) => n.to_string(),
            Ty::Str => "String".into(),
            Ty::Struct(k) => struct_name(*k),
        };
        let ty = match f.card {
            CardK::One => base,
            CardK::Opt => format!("Option<{base}>"),
            CardK::Vec => format!("Vec<{base}>"),
        };
        let mut parts: Vec<String> = vec![];
        if f.tlv_attr {
            parts.push(format!("tag = {:#x}", f.tag.unwrap()));
            if let Some(e) = rust_enc(f.enc) {
                parts.push(format!("encoding = {e}"));
            }
            s += &format!("    #[zvt_tlv({})]\n", permute(parts, f.order).join(", "));
        } else {
            if let Some(t) = f.tag {
                parts.push(if f.order % 3 == 0 { format!("number = {t}") } else { format!("number = {t:#x}") });
            }
            if let Some(l) = rust_len(&f.len) {
                parts.push(format!("length = {l}"));
            }
            if let Some(e) = rust_enc(f.enc) {
                parts.push(format!("encoding = {e}"));
            }
            if !parts.is_empty() {
                s += &format!("    #[zvt_bmp({})]\n", permute(parts, f.order).join(", "));
            }
        }
        s += &format!("    pub f{j}: {ty},\n");
    }
    s += "}\n";
    s
}

/// The generator's own description of struct `i` as a layout-table entry.
pub fn table_entry(i: usize, d: &StructDef) -> String {
    let mut s = format!("struct lab.{}", struct_name(i));
    if let Some((c, k)) = d.ctrl {
        s += &format!(" cmd {c:02x} {k:02x}");
    }
    s.push('\n');
    for (j, f) in d.fields.iter().enumerate() {
        let card = match f.card {
            CardK::One => "one",
            CardK::Opt => "opt",
            CardK::Vec => "vec",
        };
        let tag = f.tag.map(|t| format!("{t:x}")).unwrap_or("-".into());
        let len = match &f.len {
            LenK::Empty => "none".to_string(),
            LenK::Fixed(n) => format!("fixed{n}"),
            LenK::Llv => "llv".into(),
            LenK::Lllv => "lllv".into(),
            LenK::Tlv => "tlv".into(),
        };
        let enc = match (&f.ty, f.enc) {
            (Ty::Int(_, b), EncK::Default) => format!("le{b}"),
            (Ty::Int(_, b), EncK::BigEndian) => format!("be{b}"),
            (Ty::Int(_, b), _) => format!("bcd{b}"),
            (Ty::Str, EncK::Hex) => "hex".into(),
            (Ty::Str, EncK::Utf8) => "utf8".into(),
            (Ty::Str, _) => "cp437".into(),
            (Ty::Struct(k), _) => format!("struct:lab.{}", struct_name(*k)),
        };
        s += &format!("  f{j} {card} {tag} {len} {enc}\n");
    }
    s
}

/// table text of a parsed layout (for evidence samples)
pub fn table_text(l: &crate::refc::Layout) -> String {
    l.fields.iter().map(|f| format!("{} {:?} {:?} {:?} {:?}", f.name, f.card, f.tag.map(|t| format!("{t:x}")), f.len, f.enc)).collect::<Vec<_>>().join("; ")
}

/// short descriptor of a struct's shape, used in signatures (names change with the seed, shapes do not)
pub fn shape_of(d: &StructDef) -> String {
    d.fields
        .iter()
        .map(|f| {
            format!(
                "{}{}{}:{}:{}",
                match f.card {
                    CardK::One => "",
                    CardK::Opt => "?",
                    CardK::Vec => "*",
                },
                if f.tag.is_some() { "T" } else { "P" },
                if f.tlv_attr { "t" } else { "" },
                match &f.len {
                    LenK::Empty => "e".to_string(),
                    LenK::Fixed(n) => format!("f{n}"),
                    LenK::Llv => "ll".into(),
                    LenK::Lllv => "lll".into(),
                    LenK::Tlv => "tlv".into(),
                },
                match (&f.ty, f.enc) {
                    (Ty::Int(n, _), EncK::Default) => format!("le-{n}"),
                    (Ty::Int(n, _), EncK::BigEndian) => format!("be-{n}"),
                    (Ty::Int(n, _), _) => format!("bcd-{n}"),
                    (Ty::Str, EncK::Hex) => "hex".into(),
                    (Ty::Str, EncK::Utf8) => "utf8".into(),
                    (Ty::Str, _) => "cp437".into(),
                    (Ty::Struct(_), _) => "struct".into(),
                }
            )
        })
        .collect::<Vec<_>>()
        .join(",")
}

pub fn generate_program(ctx: &Ctx, batch: u64, n: usize) -> Vec<StructDef> {
    let raws = ctx.sample_values(ctx.seed_for("program", batch), n, &raw_struct_strategy());
    let mut defs: Vec<StructDef> = vec![];
    for r in &raws {
        let d = well_formed(r, &defs);
        defs.push(d);
    }
    defs
}

/// Write lab/src/gen.rs and lab/src/gen.tbl for the given program (subset: indices to register).
pub fn write_lab(defs: &[StructDef]) -> std::io::Result<()> {
    let dir = verif_root().join("lab").join("src");
    std::fs::create_dir_all(&dir)?;
    let mut rs = String::from("// generated by `zvtverif C12` - do not edit\n#![allow(dead_code, unused_imports)]\nuse zvt::{encoding, length, Zvt};\n\n");
    let mut tbl = String::new();
    for (i, d) in defs.iter().enumerate() {
        rs += &rust_source(i, d);
        rs.push('\n');
        tbl += &table_entry(i, d);
    }
    rs += "pub fn lab_types() -> Vec<zvtverif::registry::TypeEntry> {\n    vec![\n";
    for i in 0..defs.len() {
        rs += &format!("        zvtverif::lab_ty!(\"lab.{0}\", {0}),\n", struct_name(i));
    }
    rs += "    ]\n}\npub fn shapes() -> Vec<&'static str> {\n    vec![\n";
    for d in defs {
        rs += &format!("        {:?},\n", shape_of(d));
    }
    rs += "    ]\n}\npub const TABLE: &str = include_str!(\"gen.tbl\");\n";
    std::fs::write(dir.join("gen.rs"), rs)?;
    std::fs::write(dir.join("gen.tbl"), tbl)?;
    Ok(())
}

fn cargo_build_lab() -> Result<(), String> {
    let root = verif_root();
    let out = std::process::Command::new("cargo")
        .args(["build", "--quiet", "--profile", "verif"])
        .current_dir(root.join("lab"))
        .env("CARGO_NET_OFFLINE", "true")
        .env("CARGO_TARGET_DIR", root.join("target"))
        .output()
        .map_err(|e| e.to_string())?;
    if out.status.success() {
        Ok(())
    } else {
        Err(String::from_utf8_lossy(&out.stderr).lines().filter(|l| l.starts_with("error")).take(8).collect::<Vec<_>>().join("\n"))
    }
}

pub fn run(tier: Tier) -> i32 {
    let ctx = Ctx::new("C12", "exploration", tier);
    let n = tier.pick(250usize, 2400);
    let defs = generate_program(&ctx, 0, n);
    if let Err(e) = write_lab(&defs) {
        eprintln!("cannot write lab sources: {e}");
        return 2;
    }
    if let Err(e) = cargo_build_lab() {
        // generated programs follow the documented grammar: a compile error is a harness problem or a macro regression
        println!("BUILD-FAILED lab crate does not compile against /repo's derive macro:\n{e}");
        return 2;
    }
    let root = verif_root();
    let status = std::process::Command::new(root.join("target").join("verif").join("zvtlab")).arg(tier.name()).env("VERIF_ROOT", &root).env("VERIF_SEED", ctx.seed.to_string()).status();
    match status {
        Ok(s) => s.code().unwrap_or(2),
        Err(e) => {
            eprintln!("cannot run lab binary: {e}");
            2
        }
    }
}

/// Replay: the file carries the struct sources (with their nested dependencies) and table entries; rebuild a lab crate
/// with only those and re-run the one case.
pub fn replay(_check: &str, i: &Value) -> Option<CheckResult> {
    let src = i.get("program_rs")?.as_str()?;
    let tbl = i.get("program_tbl")?.as_str()?;
    let reg = i.get("registry_rs")?.as_str()?;
    let dir = verif_root().join("lab").join("src");
    std::fs::create_dir_all(&dir).ok()?;
    let rs = format!("// generated by `zvtverif C12 --replay`\n#![allow(dead_code, unused_imports)]\nuse zvt::{{encoding, length, Zvt}};\n\n{src}\n{reg}\npub const TABLE: &str = include_str!(\"gen.tbl\");\n");
    std::fs::write(dir.join("gen.rs"), rs).ok()?;
    std::fs::write(dir.join("gen.tbl"), tbl).ok()?;
    if let Err(e) = cargo_build_lab() {
        return Some(Err(Violation::new("lab", "C12 kind=replay-build-failed".to_string(), e, i.clone())));
    }
    let root = verif_root();
    let tmp = root.join("target").join("c12-replay-case.json");
    std::fs::write(&tmp, serde_json::to_string(i).ok()?).ok()?;
    let out = std::process::Command::new(root.join("target").join("verif").join("zvtlab")).arg("--replay-case").arg(&tmp).env("VERIF_ROOT", &root).output().ok()?;
    let text = String::from_utf8_lossy(&out.stdout).to_string();
    if out.status.code() == Some(0) {
        Some(Ok(()))
    } else {
        Some(Err(Violation::new("lab", i.get("sig").and_then(|s| s.as_str()).unwrap_or("C12 replay").to_string(), text, i.clone())))
    }
}
