//! C18 — card identity is a fixed function of the data the terminal reports.
use crate::engine::*;
use crate::refc::*;
use crate::scenario::*;
use crate::sim::*;
use proptest::prelude::*;
use serde::{Deserialize, Serialize};
use serde_json::{json, Value};

const P: &str = "C18";

#[derive(Serialize, Deserialize, Clone, Debug, PartialEq)]
pub struct SubSpec {
    /// hex
    pub app: Option<String>,
    pub card_type: Option<String>,
}
#[derive(Serialize, Deserialize, Clone, Debug, PartialEq)]
pub struct CardCase {
    /// hex of the UID
    pub uid: Option<String>,
    /// `60` entries directly in the status TLV
    pub subs: Vec<SubSpec>,
    /// `62` container
    pub on_card: Option<Vec<SubSpec>>,
    /// unrelated TLV fields (ATS, SAK, ...) present
    pub extra: bool,
    pub intermediates: usize,
    pub no_tlv: bool,
    pub abort: Option<u8>,
}

fn sub_val(t: &Table, s: &SubSpec) -> Val {
    make(t, "tlv.Subs", &[("card_type", opt_s(s.card_type.as_deref())), ("application_id", opt_s(s.app.as_deref()))])
}
pub fn card_packets(t: &Table, c: &CardCase, intermediates: usize, extra: bool) -> Vec<String> {
    let mut out: Vec<String> = (0..intermediates).map(|_| hex(&intermediate_packet())).collect();
    if let Some(code) = c.abort {
        out.push(hex(&abort_packet(code)));
        return out;
    }
    let mut set = vec![("result_code", opt_u(Some(0)))];
    if !c.no_tlv {
        let mut f = vec![("uuid", opt_s(c.uid.as_deref())), ("subs", Val::List(c.subs.iter().map(|s| sub_val(t, s)).collect()))];
        if let Some(oc) = &c.on_card {
            f.push(("subs_on_card", Val::Some(Box::new(make(t, "tlv.SubsOnCard", &[("subs", Val::List(oc.iter().map(|s| sub_val(t, s)).collect()))])))));
        }
        if extra {
            f.push(("ats", opt_s(Some("0578807002"))));
            f.push(("card_type", opt_u(Some(1))));
            f.push(("sub_type", opt_s(Some("fe04"))));
            f.push(("atqa", opt_s(Some("0400"))));
            f.push(("sak", opt_u(Some(0x20))));
            f.push(("maximum_pre_autorisation", opt_u(Some(10000))));
        }
        set.push(("tlv", Val::Some(Box::new(make(t, "tlv.StatusInformation", &f)))));
    }
    if extra {
        set.push(("track_2_data", opt_s(Some("6725904411001000142d24122012386013860f"))));
    }
    let si = make(t, "StatusInformation", &set);
    out.push(hex(&enc(t, "StatusInformation", &si)));
    out
}

/// canonical membership id: upper-case hex; longer than 14 digits -> last 14, minus one leading 000000 of those
pub fn canon(uid_hex: &str) -> String {
    let mut u = uid_hex.to_uppercase();
    if u.len() > 14 {
        u = u[u.len() - 14..].to_string();
        if let Some(rest) = u.strip_prefix("000000") {
            u = rest.to_string();
        }
    }
    u
}

fn run_case(c: &CardCase, intermediates: usize, extra: bool) -> Result<Vec<CallOutcome>, String> {
    let t = crate::table();
    let mut sc = Scenario::default();
    sc.sim.card_replies = card_packets(&t, c, intermediates, extra);
    sc.ops = vec![Op::ReadCard, Op::ReadCard];
    let tr = guard(|| run_scenario(&sc))?;
    if !tr.new_returned {
        return Err("Feig::new did not return".into());
    }
    Ok(tr.calls)
}

pub fn check_card(c: &CardCase) -> CheckResult {
    let input = serde_json::to_value(c).unwrap();
    let v = |kind: &str, detail: String| Err(Violation::new("card", format!("C18 kind={kind}"), detail, input.clone()));
    let calls = run_case(c, c.intermediates, c.extra).map_err(|p| Violation::new("card", "C18 kind=harness-panic".to_string(), p, input.clone()))?;
    let first = &calls[0];
    if first.panicked.is_some() || first.result.is_none() {
        return v("panic-or-hang", format!("read_card panicked {:?} / returned {}", first.panicked, first.result.is_some()));
    }
    let got = first.result.clone().unwrap();
    if let Some(code) = c.abort {
        return match (&got, code) {
            (Err(ErrClass::NoCardPresented), 0x6c) => Ok(()),
            (Err(ErrClass::NoCardPresented), _) => v("abort-mistaken-for-no-card", format!("abort {code:#x} reported as 'no card presented'")),
            (Err(_), 0x6c) => v("timeout-not-no-card", format!("terminal time-out (0x6c) reported as {:?}", got)),
            (Err(_), _) => Ok(()),
            (Ok(r), _) => v("abort-reported-ok", format!("abort {code:#x} reported as {:?}", r)),
        };
    }
    let direct_entries = if c.no_tlv { 0 } else { c.subs.len() };
    let contained = if c.no_tlv { 0 } else { c.on_card.as_ref().map(|v| v.len()).unwrap_or(0) };
    let a = !c.no_tlv && (c.subs.iter().any(|s| s.app.is_some()) || c.on_card.as_ref().map(|v| v.iter().any(|s| s.app.is_some())).unwrap_or(false));
    let f = !c.no_tlv && c.subs.first().map(|s| s.app.is_some()).unwrap_or(false);
    let uid = if c.no_tlv { None } else { c.uid.clone() };
    let desc = format!("uid {:?}, direct entries {:?}, container {:?}, no_tlv {}", c.uid, c.subs, c.on_card, c.no_tlv);
    // positive clauses
    if f && got != Ok(Ret::Card(None)) {
        return v("bank-card-not-recognised", format!("{desc}: the first listed entry carries an application id; expected Bank, got {:?}", got));
    }
    if direct_entries == 0 && contained == 0 {
        match (&uid, &got) {
            (Some(u), Ok(Ret::Card(Some(id)))) if *id == canon(u) => {}
            (Some(u), other) => return v("membership-id", format!("{desc}: expected MembershipCard({:?}), got {:?}", canon(u), other)),
            (None, Err(_)) => {}
            (None, other) => return v("no-data-accepted", format!("{desc}: neither UID nor application list; expected an error, got {:?}", other)),
        }
    }
    // never clauses
    match &got {
        Ok(Ret::Card(Some(id))) => {
            if a {
                return v("payment-card-reported-as-membership", format!("{desc}: the terminal lists a payment application, yet read_card returned MembershipCard({id:?})"));
            }
            if uid.as_deref().map(canon) != Some(id.clone()) {
                return v("membership-id", format!("{desc}: membership id {id:?} is not the canonical form {:?}", uid.as_deref().map(canon)));
            }
        }
        Ok(Ret::Card(None)) => {
            if !a {
                return v("bank-without-application", format!("{desc}: no payment application listed, yet read_card returned Bank"));
            }
        }
        _ => {}
    }
    // same card presented again => same answer
    let second = calls[1].result.clone();
    if second != Some(got.clone()) && !(matches!(got, Err(_)) && matches!(second, Some(Err(_)))) {
        return v("not-repeatable", format!("{desc}: first presentation {:?}, second {:?}", got, second));
    }
    // metamorphic: intermediate statuses and unrelated TLV fields do not matter
    let alt = run_case(c, (c.intermediates + 2) % 6, !c.extra).map_err(|p| Violation::new("card", "C18 kind=harness-panic".to_string(), p, input.clone()))?;
    let alt0 = alt[0].result.clone();
    let same = match (&got, &alt0) {
        (Ok(a), Some(Ok(b))) => a == b,
        (Err(_), Some(Err(_))) => true,
        _ => false,
    };
    if !same {
        return v("depends-on-unrelated-data", format!("{desc}: result {:?} with {} intermediates / extra={} but {:?} with {} intermediates / extra={}", got, c.intermediates, c.extra, alt0, (c.intermediates + 2) % 6, !c.extra));
    }
    Ok(())
}

pub fn replay(_c: &str, i: &Value) -> Option<CheckResult> {
    Some(check_card(&serde_json::from_value(i.clone()).ok()?))
}

pub fn case_strategy() -> impl Strategy<Value = CardCase> {
    let hexs = |n: std::ops::RangeInclusive<usize>| proptest::collection::vec(any::<u8>(), n).prop_map(|b| hex(&b));
    let uid = prop_oneof![
        2 => proptest::collection::vec(any::<u8>(), 0..=20).prop_map(|b| hex(&b)),
        2 => proptest::collection::vec(any::<u8>(), 4..=7).prop_map(|b| hex(&b)),
        2 => (proptest::collection::vec(any::<u8>(), 1..=7), 1usize..8).prop_map(|(b, z)| { let mut v = vec![0u8; z]; v.extend(b); hex(&v) }),
        1 => (proptest::collection::vec(any::<u8>(), 4..=4), 0usize..8).prop_map(|(b, z)| { let mut v = vec![0xabu8; z]; v.extend([0, 0, 0]); v.extend(b); hex(&v) }),
        // zero-heavy UIDs: runs of zero digits anywhere, byte- or nibble-aligned
        3 => proptest::collection::vec(prop_oneof![3 => Just(0u8), 1 => (0u8..16), 1 => (0u8..16).prop_map(|x| x << 4), 2 => any::<u8>()], 0..=20).prop_map(|b| hex(&b)),
        // six zero digits planted at every digit offset around and inside the 14-digit tail of a long UID
        2 => (proptest::collection::vec(1u8..=255, 8..=20), 0usize..=22, 5usize..=7).prop_map(|(b, k, run)| {
            let mut d: Vec<u8> = hex(&b).into_bytes();
            let start = (d.len() + 6).saturating_sub(14 + 6 + 2) + k; // from two digits before the cut to the end
            for x in d.iter_mut().skip(start.min(40)).take(run) {
                *x = b'0';
            }
            String::from_utf8(d).unwrap()
        }),
        1 => proptest::sample::select(vec!["000000000000081ca72f".to_string(), "00000000000008b3c880".to_string(), "0000000463c8b2ae4f80".to_string()]),
    ];
    let sub = (proptest::option::weighted(0.6, hexs(5..=10)), proptest::option::weighted(0.4, hexs(2..=2))).prop_map(|(app, card_type)| SubSpec { app, card_type });
    (
        proptest::option::weighted(0.85, uid),
        prop_oneof![3 => Just(vec![]), 2 => proptest::collection::vec(sub.clone(), 0..=4)],
        prop_oneof![4 => Just(None), 1 => proptest::collection::vec(sub, 0..=3).prop_map(Some)],
        any::<bool>(),
        prop_oneof![30 => 0usize..=5, 1 => proptest::sample::select(vec![254usize, 255, 256, 257, 300, 1000])],
        prop::bool::weighted(0.05),
        prop_oneof![12 => Just(None), 1 => Just(Some(0x6cu8)), 1 => any::<u8>().prop_map(Some)],
    )
        .prop_map(|(uid, subs, on_card, extra, intermediates, no_tlv, abort)| CardCase { uid, subs, on_card, extra, intermediates, no_tlv, abort })
}

pub fn run(tier: Tier) -> i32 {
    let ctx = Ctx::new(P, "exploration", tier);
    let mut stats = Stats::new();
    stats.sample_cap = 6;
    crate::run_regressions(&ctx, &mut stats, replay);
    // every abort code once
    let s = ctx.shards("codes", 16, |i, _seed, st| {
        let mut c = i as u32;
        while c < 256 {
            let case = CardCase { uid: None, subs: vec![], on_card: None, extra: false, intermediates: (c % 3) as usize, no_tlv: false, abort: Some(c as u8) };
            st.case(true, fnv_str(&format!("abort-{c}")));
            st.class("abort-code");
            ctx.record(check_card(&case), st);
            c += 16;
        }
    });
    stats.merge(s);
    let n: u32 = tier.pick(30_000, 600_000);
    let s = ctx.shards("cards", 32, |_i, seed, st| {
        ctx.proptest(seed, n / 32, &case_strategy(), st, |c, st| {
            let long_uid = c.uid.as_ref().map(|u| u.len() > 14).unwrap_or(false);
            let both = c.uid.is_some() && (!c.subs.is_empty() || c.on_card.as_ref().map(|v| !v.is_empty()).unwrap_or(false));
            st.case(long_uid || both, fnv(&serde_json::to_vec(c).unwrap()));
            if long_uid {
                st.class("uid>7-bytes");
                let u = c.uid.as_ref().unwrap();
                let tail = &u[u.len() - 14..];
                if tail[1..].contains("000000") {
                    st.class("uid>7-bytes:000000-inside-the-tail-not-at-its-start");
                }
            }
            if both {
                st.class("uid-and-application-list");
            }
            if c.on_card.is_some() {
                st.class("62-container");
            }
            if c.abort.is_some() {
                st.class("abort");
            }
            if c.intermediates >= 254 {
                st.class("hundreds-of-intermediate-statuses");
            }
            if st.samples.len() < 1 && long_uid && c.abort.is_none() {
                st.sample(|| serde_json::to_value(c).unwrap());
            }
            check_card(c)
        });
    });
    stats.merge(s);
    stats.exhaustive_parts = vec!["all 256 abort codes".into()];
    ctx.finish(
        stats,
        "proptest status-information replies built by the reference encoder: UID absent / 0..20 bytes (biased to <= 7 bytes, leading zero bytes, 000000 after the cut, zero-heavy alphabets, runs of 5..7 zero digits planted at every digit offset around and inside the 14-digit tail, the captured UIDs), application entries directly (tag 60) and in the 62 container with/without application id, unrelated TLV fields, 0..5 (occasionally 254 / 255 / 256 / 257 / 300 / 1000) preceding intermediate statuses, aborts (all 256 codes once). Oracle: first direct entry has an application id => Bank; no entries and a UID => MembershipCard(canon(uid)); neither => error; never Membership when any listed entry carries an application id, never Bank when none does, membership id always canon(uid); same result on a second presentation and under changed intermediates / unrelated fields; abort 0x6c => NoCardPresented, other aborts => another error. non-trivial = UID longer than 7 bytes, or both a UID and an application list; distinct by case",
        &["for entries without application id in first position the statement leaves the outcome open (never-clauses only)", "canon() is my own transcription of the canonical form in the property"],
        false,
    )
}

#[allow(dead_code)]
fn _j() -> Value {
    json!(null)
}
