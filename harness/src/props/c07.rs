//! C07 (token map) and C19 (clean-up when idle) — model-based over begin/commit/cancel histories.
//! One walker (reference client model) builds the terminal plan and the per-call expectations; mismatches are
//! attributed to C07 (refusals, own exchange, receipt, drain) or C19 (clean-up requests and their outcome).
use crate::engine::*;
use crate::refc::*;
use crate::scenario::*;
use crate::sim::*;
use proptest::prelude::*;
use serde::{Deserialize, Serialize};
use serde_json::{json, Value};
use std::collections::BTreeMap;

#[derive(Serialize, Deserialize, Clone, Copy, Debug, PartialEq)]
pub enum BeginOut {
    Success,
    Abort(u8),
    NoReceipt,
    /// status information with a receipt number, then abort (declined payment): nothing is reserved
    AbortAfterReceipt(u8),
    /// the reservation is granted and its status information (with receipt number) acknowledged, then the connection is lost
    /// in front of the completion; the re-sent reservation is granted too, this time without a receipt number. Both
    /// pre-authorisations stand in the terminal, the call fails, the token is not open.
    LostThenNoReceipt,
}
#[derive(Serialize, Deserialize, Clone, Copy, Debug, PartialEq)]
pub enum RevOut {
    Completion,
    Abort(u8),
    /// commit only: the terminal completes the partial reversal without sending a status information
    CompletionNoStatus,
}
#[derive(Serialize, Deserialize, Clone, Debug, PartialEq)]
pub enum HOp {
    Begin { tok: usize, out: BeginOut },
    Commit { tok: usize, amount: u64, out: RevOut },
    Cancel { tok: usize, out: RevOut },
    /// `configure()` is called and the terminal refuses its very first exchange (system information) with this abort code:
    /// the call fails before it touches anything, so the token map must be what it was (only the first such step of a
    /// history is executed)
    ConfigureRefused { code: u8 },
}
#[derive(Serialize, Deserialize, Clone, Debug, PartialEq)]
pub struct History {
    pub max: usize,
    pub tokens: Vec<String>,
    /// receipts the terminal issues to successive reservations (cycled); need not be distinct or increasing
    pub receipts: Vec<u64>,
    pub dangling: Option<u64>,
    pub steps: Vec<HOp>,
    /// outcome of the n-th end-of-day (cycled)
    pub eod: Vec<RevOut>,
    /// outcome of the n-th reversal of a dangling pre-authorisation (cycled)
    pub dangling_reversal: Vec<RevOut>,
    pub intermediates: usize,
    pub password: u64,
    /// status informations of every successful reservation (Sim::status_script): "R", "NR", "RN", "XR", ...
    #[serde(default)]
    pub status_script: Option<String>,
}
pub const STATUS_SCRIPTS: [&str; 8] = ["R", "NR", "RN", "XR", "RNN", "XNR", "NRN", "XRN"];

#[derive(Clone, Debug, PartialEq)]
pub enum ExpReq {
    Reservation,
    PartialReversal { receipt: u64 },
    PreAuthReversal { receipt: u64 },
    PendingQuery,
    EndOfDay,
}
#[derive(Clone, Debug, PartialEq)]
pub enum ExpResult {
    Ok,
    RefusedActive,
    RefusedUnknown(String),
    /// any error
    Err,
    Aborted(u8),
}
#[derive(Clone, Debug)]
pub struct ExpCall {
    pub op: Op,
    pub accepted: bool,
    /// expectation for the call's own exchange (C07)
    pub own: Vec<ExpReq>,
    pub own_result: ExpResult,
    /// clean-up part (C19): None = own exchange did not complete; Some(list) = requests after the own exchange
    pub cleanup: Option<Vec<ExpReq>>,
    /// final result when the clean-up part applies
    pub final_result: ExpResult,
    pub open_after: usize,
}

/// Reference model of the client + mirror of the simulated ledger.
pub fn walk(h: &History) -> (Vec<ExpCall>, Vec<PlanEntry>) {
    walk_alt(h, true)
}
/// `lost_ok`: how a begin ends whose first reservation was granted with a receipt number and then lost its connection, while
/// the re-sent one is granted without a number. Both readings keep tokens and pre-authorisations one-to-one: the begin
/// succeeds and the token stands for the numbered pre-authorisation (true; what the code does: "only overwrite the
/// receipt_no if it is contained in the message"), or the begin fails and the token is not open (false).
pub fn walk_alt(h: &History, lost_ok: bool) -> (Vec<ExpCall>, Vec<PlanEntry>) {
    let mut open: BTreeMap<String, u64> = BTreeMap::new();
    let mut ledger: Vec<u64> = vec![];
    let mut dangling = h.dangling;
    let (mut n_res, mut n_prev, mut n_pre, mut n_pend, mut n_eod, mut n_dang) = (0usize, 0usize, 0usize, 0usize, 0usize, 0usize);
    let mut issued = 0usize;
    let mut n_cfg = 0usize;
    let mut plan: Vec<PlanEntry> = vec![];
    let mut calls = vec![];
    let pe = |kind: Kind, occ: usize, outcome: Outcome| PlanEntry { kind, occ: Some(occ), from_start: false, directive: Directive { outcome, ..Default::default() } };
    // drain: cancel every token of the alphabet at the end, all with Normal outcomes
    let mut steps: Vec<(HOp, bool)> = h.steps.iter().cloned().map(|s| (s, false)).collect();
    for k in 0..h.tokens.len() {
        steps.push((HOp::Cancel { tok: k, out: RevOut::Completion }, true));
    }
    for (step, is_drain) in steps {
        let eod_out = |n: usize| if is_drain || h.eod.is_empty() { RevOut::Completion } else { h.eod[n % h.eod.len()] };
        let dang_out = |n: usize| if is_drain || h.dangling_reversal.is_empty() { RevOut::Completion } else { h.dangling_reversal[n % h.dangling_reversal.len()] };
        match step {
            HOp::ConfigureRefused { code } => {
                if n_cfg > 0 {
                    continue;
                }
                n_cfg += 1;
                plan.push(pe(Kind::SystemInfo, 0, Outcome::Abort(code)));
                calls.push(ExpCall { op: Op::Configure, accepted: true, own: vec![], own_result: ExpResult::Err, cleanup: None, final_result: ExpResult::Err, open_after: open.len() });
            }
            HOp::Begin { tok, out } => {
                let t = h.tokens[tok % h.tokens.len()].clone();
                let op = Op::Begin(t.clone());
                if open.len() == h.max || open.contains_key(&t) {
                    calls.push(ExpCall { op, accepted: false, own: vec![], own_result: ExpResult::RefusedActive, cleanup: None, final_result: ExpResult::RefusedActive, open_after: open.len() });
                    continue;
                }
                let mut own_n = 1usize;
                let res = match out {
                    BeginOut::Success => {
                        let rc = h.receipts[issued % h.receipts.len()];
                        issued += 1;
                        ledger.push(rc);
                        open.insert(t.clone(), rc);
                        ExpResult::Ok
                    }
                    BeginOut::NoReceipt => {
                        let rc = h.receipts[issued % h.receipts.len()];
                        issued += 1;
                        ledger.push(rc);
                        plan.push(pe(Kind::Reservation, n_res, Outcome::NoReceipt));
                        ExpResult::Err
                    }
                    BeginOut::LostThenNoReceipt if h.status_script.is_none() => {
                        let first = h.receipts[issued % h.receipts.len()];
                        for _ in 0..2 {
                            let rc = h.receipts[issued % h.receipts.len()];
                            issued += 1;
                            ledger.push(rc);
                        }
                        if lost_ok {
                            open.insert(t.clone(), first);
                        }
                        plan.push(PlanEntry { kind: Kind::Reservation, occ: Some(n_res), from_start: false, directive: Directive { fault: Some((FaultKind::Close, 1 + h.intermediates + 1)), ..Default::default() } });
                        plan.push(pe(Kind::Reservation, n_res + 1, Outcome::NoReceipt));
                        n_res += 1;
                        own_n = 2;
                        if lost_ok { ExpResult::Ok } else { ExpResult::Err }
                    }
                    BeginOut::LostThenNoReceipt => {
                        let rc = h.receipts[issued % h.receipts.len()];
                        issued += 1;
                        ledger.push(rc);
                        plan.push(pe(Kind::Reservation, n_res, Outcome::NoReceipt));
                        ExpResult::Err
                    }
                    BeginOut::Abort(c) => {
                        plan.push(pe(Kind::Reservation, n_res, Outcome::Abort(c)));
                        ExpResult::Err
                    }
                    BeginOut::AbortAfterReceipt(c) => {
                        plan.push(pe(Kind::Reservation, n_res, Outcome::AbortAfterStatus(c)));
                        ExpResult::Err
                    }
                };
                n_res += 1;
                calls.push(ExpCall { op, accepted: true, own: vec![ExpReq::Reservation; own_n], own_result: res.clone(), cleanup: None, final_result: res, open_after: open.len() });
            }
            HOp::Commit { tok, out, .. } | HOp::Cancel { tok, out } => {
                let t = h.tokens[tok % h.tokens.len()].clone();
                let is_commit = matches!(step, HOp::Commit { .. });
                let op = if let HOp::Commit { amount, .. } = step { Op::Commit(t.clone(), amount) } else { Op::Cancel(t.clone()) };
                let Some(rc) = open.remove(&t) else {
                    calls.push(ExpCall { op, accepted: false, own: vec![], own_result: ExpResult::RefusedUnknown(t.clone()), cleanup: None, final_result: ExpResult::RefusedUnknown(t), open_after: open.len() });
                    continue;
                };
                let own = if is_commit { ExpReq::PartialReversal { receipt: rc } } else { ExpReq::PreAuthReversal { receipt: rc } };
                let (kind, occ) = if is_commit {
                    n_prev += 1;
                    (Kind::PartialReversal, n_prev - 1)
                } else {
                    n_pre += 1;
                    (Kind::PreAuthReversal, n_pre - 1)
                };
                // the simulated terminal rejects a receipt it does not hold (cannot happen if the client sends the right one)
                let in_ledger = ledger.iter().position(|r| *r == rc);
                match out {
                    RevOut::Abort(c) => {
                        plan.push(pe(kind, occ, Outcome::Abort(c)));
                        calls.push(ExpCall { op, accepted: true, own: vec![own], own_result: ExpResult::Aborted(c), cleanup: None, final_result: ExpResult::Aborted(c), open_after: open.len() });
                        continue;
                    }
                    RevOut::Completion | RevOut::CompletionNoStatus => {
                        if let Some(i) = in_ledger {
                            ledger.remove(i);
                        }
                    }
                }
                // a commit without status information still completes (and cleans up) but has no summary to return
                let no_summary = is_commit && out == RevOut::CompletionNoStatus;
                if no_summary {
                    plan.push(pe(kind, occ, Outcome::NoStatus));
                }
                if !open.is_empty() {
                    calls.push(ExpCall { op, accepted: true, own: vec![own], own_result: ExpResult::Ok, cleanup: Some(vec![]), final_result: if no_summary { ExpResult::Err } else { ExpResult::Ok }, open_after: open.len() });
                    continue;
                }
                // clean-up: pending query, reversal of the reported pre-authorisation, end-of-day
                let mut cl = vec![ExpReq::PendingQuery];
                n_pend += 1;
                let pending = dangling.or(ledger.iter().min().copied());
                let mut result = ExpResult::Ok;
                let mut stop = false;
                if let Some(r) = pending {
                    if r != 0xffff {
                        cl.push(ExpReq::PreAuthReversal { receipt: r });
                        let o = dang_out(n_dang);
                        n_dang += 1;
                        n_pre += 1;
                        match o {
                            RevOut::Abort(c) => {
                                plan.push(pe(Kind::PreAuthReversal, n_pre - 1, Outcome::Abort(c)));
                                result = ExpResult::Aborted(c);
                                stop = true;
                            }
                            RevOut::Completion | RevOut::CompletionNoStatus => {
                                // same rule as the simulated terminal: a ledger entry with that receipt goes first,
                                // the separate dangling pre-authorisation only if the ledger holds none
                                if let Some(i) = ledger.iter().position(|x| *x == r) {
                                    ledger.remove(i);
                                } else if dangling == Some(r) {
                                    dangling = None;
                                }
                            }
                        }
                    }
                }
                if !stop {
                    cl.push(ExpReq::EndOfDay);
                    let o = eod_out(n_eod);
                    n_eod += 1;
                    if let RevOut::Abort(c) = o {
                        plan.push(pe(Kind::EndOfDay, n_eod - 1, Outcome::Abort(c)));
                        if c != 0xa0 {
                            result = ExpResult::Aborted(c);
                        }
                    }
                }
                let _ = n_pend;
                if no_summary && result == ExpResult::Ok {
                    result = ExpResult::Err;
                }
                calls.push(ExpCall { op, accepted: true, own: vec![own], own_result: ExpResult::Ok, cleanup: Some(cl), final_result: result, open_after: 0 });
            }
        }
    }
    (calls, plan)
}

pub fn scenario_of(h: &History) -> (Scenario, Vec<ExpCall>) {
    scenario_of_alt(h, true)
}
pub fn scenario_of_alt(h: &History, lost_ok: bool) -> (Scenario, Vec<ExpCall>) {
    let (calls, plan) = walk_alt(h, lost_ok);
    let mut sc = Scenario { cfg: CfgSpec { max: h.max, password: h.password, ..Default::default() }, ..Default::default() };
    sc.sim.receipts = h.receipts.clone();
    sc.sim.dangling = h.dangling;
    sc.sim.intermediates = h.intermediates;
    sc.sim.status_script = h.status_script.clone();
    if h.intermediates == 2 {
        // receipt chatter (print line + print text block) inside every exchange that allows it
        sc.sim.chatter = chatter_packets(&crate::table()).iter().map(|p| hex(p)).collect();
    }
    sc.plan = plan;
    sc.ops = calls.iter().map(|c| c.op.clone()).collect();
    (sc, calls)
}

fn req_matches(t: &Table, e: &ExpReq, got: &(Kind, Val, usize, Vec<u8>), password: u64) -> bool {
    let _ = t;
    match e {
        ExpReq::Reservation => got.0 == Kind::Reservation,
        ExpReq::PartialReversal { receipt } => got.0 == Kind::PartialReversal && get_u(&got.1, "receipt_no") == Some(*receipt),
        ExpReq::PreAuthReversal { receipt } => got.0 == Kind::PreAuthReversal && get_u(&got.1, "receipt_no") == Some(*receipt),
        ExpReq::PendingQuery => got.0 == Kind::PendingQuery,
        ExpReq::EndOfDay => got.0 == Kind::EndOfDay && get_u(&got.1, "password") == Some(password),
    }
}
fn show_reqs(r: &[(Kind, Val, usize, Vec<u8>)]) -> String {
    r.iter().map(|(k, v, _, _)| format!("{k:?}{}", get_u(v, "receipt_no").map(|r| format!("(receipt {r})")).unwrap_or_default())).collect::<Vec<_>>().join(" -> ")
}
fn result_matches(exp: &ExpResult, got: &Result<Ret, ErrClass>) -> bool {
    match (exp, got) {
        (ExpResult::Ok, Ok(_)) => true,
        (ExpResult::RefusedActive, Err(ErrClass::ActiveTransaction(_))) => true,
        (ExpResult::RefusedUnknown(t), Err(ErrClass::UnknownToken(x))) => t == x,
        (ExpResult::Err, Err(_)) => true,
        (ExpResult::Aborted(c), Err(ErrClass::Aborted(x))) => c == x,
        _ => false,
    }
}

/// Run one history against the real client and compare with the model. `prop` selects which mismatches count.
pub fn check_history(prop: &str, h: &History) -> CheckResult {
    // a history with a lost-then-unnumbered begin has two admissible readings (walk_alt): the client has to follow one of them
    // from beginning to end
    let two = h.status_script.is_none() && h.steps.iter().any(|s| matches!(s, HOp::Begin { out: BeginOut::LostThenNoReceipt, .. }));
    match check_history_alt(prop, h, true) {
        Err(e) if two => check_history_alt(prop, h, false).map_err(|_| e),
        r => r,
    }
}
fn check_history_alt(prop: &str, h: &History, lost_ok: bool) -> CheckResult {
    let input = serde_json::to_value(h).unwrap();
    let (sc, exp) = scenario_of_alt(h, lost_ok);
    let tr = guard(|| run_scenario(&sc)).map_err(|p| Violation::new("history", format!("{prop} kind=harness-panic"), p, input.clone()))?;
    if !tr.new_returned {
        return Ok(());
    }
    let t = crate::table();
    // (refused-configure steps after the first are not executed: count the calls, not the steps)
    let nsteps = exp.len().saturating_sub(h.tokens.len());
    for (k, (e, c)) in exp.iter().zip(&tr.calls).enumerate() {
        let drain = k >= nsteps;
        let label = format!("call {k}{} {:?}", if drain { " (drain)" } else { "" }, e.op);
        let v = |p: &str, kind: &str, detail: String| -> CheckResult {
            if p == prop {
                Err(Violation::new("history", format!("{p} op={} kind={kind}", match &e.op { Op::Begin(_) => "begin", Op::Commit(..) => "commit", Op::Cancel(_) => "cancel", Op::Configure => "configure", _ => "?" }), detail, input.clone()))
            } else {
                Ok(())
            }
        };
        if c.panicked.is_some() || c.result.is_none() {
            return v("C07", "call-did-not-complete", format!("{label}: panicked {:?} / returned {}", c.panicked, c.result.is_some()));
        }
        let got = c.result.as_ref().unwrap();
        let reqs = decoded_requests(&tr.world, c.req_from, c.req_to);
        if matches!(e.op, Op::Configure) {
            // premise of the step: the refused system-information exchange was all that happened and the call failed;
            // otherwise the rest of the history says nothing
            if got.is_ok() || reqs.len() != 1 || reqs[0].0 != Kind::SystemInfo {
                return Ok(());
            }
            continue;
        }
        if !e.accepted {
            // refused: documented error, zero bytes, no connection
            if !result_matches(&e.own_result, got) {
                v("C07", if drain { "drain-token-should-be-closed" } else { "refusal-expected" }, format!("{label}: model refuses with {:?}; the client returned {:?} after requests [{}]", e.own_result, got, show_reqs(&reqs)))?;
            }
            let events = c.clog_to - c.clog_from;
            if events != 0 || !reqs.is_empty() {
                v("C07", "traffic-on-refused-call", format!("{label}: refused by the rules, yet {events} connection events / requests [{}]", show_reqs(&reqs)))?;
            }
            continue;
        }
        // accepted: own exchange
        if reqs.is_empty() || !req_matches(&t, &e.own[0], &reqs[0], h.password) {
            v("C07", if drain { "drain-wrong-receipt" } else { "wrong-first-request" }, format!("{label}: expected first request {:?}; got [{}] result {:?}", e.own[0], show_reqs(&reqs), got))?;
            return Ok(());
        }
        match &e.cleanup {
            None => {
                // own exchange failed (abort / no receipt) or begin
                if matches!(e.op, Op::Begin(_)) {
                    // (a begin whose first attempt lost its connection re-sends the reservation after the handshake of the new one)
                    let reservations = reqs.iter().filter(|r| r.0 == Kind::Reservation).count();
                    let foreign = reqs.iter().filter(|r| !matches!(r.0, Kind::Reservation | Kind::Registration | Kind::SystemInfo)).count();
                    if (e.own.len() == 1 && reqs.len() != 1) || reservations != e.own.len() || foreign != 0 {
                        v("C07", "begin-more-than-one-exchange", format!("{label}: requests [{}]", show_reqs(&reqs)))?;
                    }
                    let ok = match (&e.own_result, got) {
                        (ExpResult::Ok, Ok(_)) => true,
                        (ExpResult::Err, Err(ErrClass::ActiveTransaction(_) | ErrClass::UnknownToken(_))) => false,
                        (ExpResult::Err, Err(_)) => true,
                        _ => false,
                    };
                    if !ok {
                        v("C07", "begin-result", format!("{label}: terminal outcome makes the model expect {:?}; got {:?}", e.own_result, got))?;
                    }
                } else {
                    if !matches!(got, Err(_)) {
                        v("C07", "aborted-exchange-reported-ok", format!("{label}: the terminal aborted the exchange; got {:?}", got))?;
                    }
                    if reqs.len() != 1 {
                        v("C19", "cleanup-after-failed-exchange", format!("{label}: own exchange was aborted, yet requests [{}]", show_reqs(&reqs)))?;
                    }
                }
            }
            Some(cl) => {
                let rest = &reqs[1..];
                let matches = rest.len() == cl.len() && cl.iter().zip(rest).all(|(a, b)| req_matches(&t, a, b, h.password));
                if !matches {
                    if e.open_after > 0 {
                        v("C19", "cleanup-while-transactions-open", format!("{label}: {} transactions still open, yet further requests [{}]", e.open_after, show_reqs(rest)))?;
                    } else {
                        v("C19", "wrong-cleanup-sequence", format!("{label}: no transaction left open; expected {:?}; got [{}]", cl, show_reqs(rest)))?;
                    }
                    // the model and the client diverged: later expectations are meaningless
                    return Ok(());
                }
                if !result_matches(&e.final_result, got) {
                    if cl.is_empty() {
                        v("C07", "completed-exchange-result", format!("{label}: expected {:?}; got {:?}", e.final_result, got))?;
                    } else {
                        v("C19", "cleanup-result", format!("{label}: clean-up {:?} makes the model expect {:?}; got {:?}", cl, e.final_result, got))?;
                    }
                }
            }
        }
    }
    Ok(())
}

pub fn replay_c07(_c: &str, i: &Value) -> Option<CheckResult> {
    Some(check_history("C07", &serde_json::from_value(i.clone()).ok()?))
}
pub fn replay_c19(_c: &str, i: &Value) -> Option<CheckResult> {
    Some(check_history("C19", &serde_json::from_value(i.clone()).ok()?))
}

fn nontrivial_c07(exp: &[ExpCall], nsteps: usize) -> bool {
    let e = &exp[..nsteps.min(exp.len())];
    e.iter().any(|c| !c.accepted) && e.iter().any(|c| c.accepted && !matches!(c.op, Op::Begin(_)))
}
fn nontrivial_c19(exp: &[ExpCall], nsteps: usize) -> bool {
    let e = &exp[..nsteps.min(exp.len())];
    e.iter().any(|c| matches!(&c.cleanup, Some(cl) if cl.is_empty())) && e.iter().any(|c| matches!(&c.cleanup, Some(cl) if !cl.is_empty()))
}

/// all step alternatives over `ntok` tokens; `outcomes` = include failing terminal outcomes
fn alternatives(ntok: usize, outcomes: bool) -> Vec<HOp> {
    let mut v = vec![];
    for tok in 0..ntok {
        v.push(HOp::Begin { tok, out: BeginOut::Success });
        v.push(HOp::Commit { tok, amount: 700, out: RevOut::Completion });
        v.push(HOp::Cancel { tok, out: RevOut::Completion });
        if outcomes {
            v.push(HOp::Begin { tok, out: BeginOut::Abort(0x6f) });
            v.push(HOp::Begin { tok, out: BeginOut::NoReceipt });
            v.push(HOp::Begin { tok, out: BeginOut::AbortAfterReceipt(0x05) });
            v.push(HOp::Begin { tok, out: BeginOut::LostThenNoReceipt });
            v.push(HOp::Commit { tok, amount: 700, out: RevOut::Abort(0xb5) });
            v.push(HOp::Commit { tok, amount: 700, out: RevOut::CompletionNoStatus });
            v.push(HOp::Cancel { tok, out: RevOut::Abort(0x64) });
        }
    }
    v
}

fn history_strategy() -> impl Strategy<Value = History> {
    let token = prop_oneof![
        2 => proptest::collection::vec(prop_oneof![3 => 0x21u8..0x7f, 1 => 0x80u8..=0xff, 1 => Just(0x20u8)], 1..=40).prop_map(|b| { let mut b = b; if *b.last().unwrap() == 0x20 { *b.last_mut().unwrap() = b'x'; } b.iter().map(|x| cp437_char(*x)).collect::<String>() }),
        1 => "[A-Z0-9]{1,8}",
    ];
    let code = prop_oneof![Just(0xa0u8), Just(0x6c), Just(0xb8), Just(0xfc), Just(0x00), any::<u8>()];
    let begin_out = prop_oneof![5 => Just(BeginOut::Success), 1 => code.clone().prop_map(BeginOut::Abort), 1 => Just(BeginOut::NoReceipt), 1 => code.clone().prop_map(BeginOut::AbortAfterReceipt), 1 => Just(BeginOut::LostThenNoReceipt)];
    let rev_out = prop_oneof![5 => Just(RevOut::Completion), 1 => code.clone().prop_map(RevOut::Abort)];
    let step = prop_oneof![
        3 => (0usize..5, begin_out).prop_map(|(tok, out)| HOp::Begin { tok, out }),
        2 => (0usize..5, any::<u64>(), prop_oneof![6 => rev_out.clone(), 1 => Just(RevOut::CompletionNoStatus)]).prop_map(|(tok, amount, out)| HOp::Commit { tok, amount, out }),
        2 => (0usize..5, rev_out.clone()).prop_map(|(tok, out)| HOp::Cancel { tok, out }),
        1 => prop_oneof![Just(0x83u8), Just(0x6c), any::<u8>()].prop_map(|code| HOp::ConfigureRefused { code }),
    ];
    (
        0usize..=3,
        prop_oneof![
            3 => (Just("T0".to_string()), Just("T1".to_string()), Just("T2".to_string()), token.clone(), token).prop_map(|(a, b, c, d, e)| {
                let mut v = vec![a, b, c, d.clone(), e.clone()];
                // tokens are distinct
                if v[..3].contains(&d) {
                    v[3] = format!("{d}-");
                }
                if v[..4].contains(&e) {
                    v[4] = format!("{e}+");
                }
                v
            }),
            // blank and nearly blank tokens (a token is whatever string the caller passes)
            1 => Just(vec!["".to_string(), " ".to_string(), "\t ".to_string(), "  x".to_string(), "x".to_string()]),
            // long tokens that differ only behind a common prefix of 7 .. 63 characters (distinct tokens are distinct
            // transactions, however much they have in common)
            1 => (proptest::sample::select(vec![7usize, 15, 16, 31, 32, 33, 40, 63]), "[a-z0-9/-]{63}", any::<bool>()).prop_map(|(n, base, case)| {
                let p = &base[..n];
                vec![format!("{p}1"), format!("{p}2"), format!("{p}10"), if case { p.to_uppercase() + "1" } else { format!("{p}-1") }, p.to_string()]
            }),
        ],
        // receipt numbers are two BCD bytes: 0000 is as good a number as any other (only ffff means "none")
        proptest::collection::vec(prop_oneof![8 => 1u64..=9999, 1 => Just(0u64)], 1..6),
        proptest::option::weighted(0.3, prop_oneof![6 => 1u64..=9999, 1 => Just(0u64)]),
        prop_oneof![3 => proptest::collection::vec(step.clone(), 0..10), 1 => proptest::collection::vec(step, 0..=40)],
        proptest::collection::vec(prop_oneof![3 => Just(RevOut::Completion), 1 => Just(RevOut::Abort(0xa0)), 1 => any::<u8>().prop_map(RevOut::Abort)], 1..4),
        proptest::collection::vec(prop_oneof![4 => Just(RevOut::Completion), 1 => any::<u8>().prop_map(RevOut::Abort)], 1..3),
        0usize..3,
        prop_oneof![Just(123456u64), Just(0), Just(999_999), 0u64..=999_999],
        prop_oneof![2 => Just(0usize), 3 => 1usize..STATUS_SCRIPTS.len()],
    )
        .prop_map(|(max, tokens, receipts, dangling, steps, eod, dangling_reversal, intermediates, password, script)| History { max, tokens, receipts, dangling, steps, eod, dangling_reversal, intermediates, password, status_script: if script == 0 { None } else { Some(STATUS_SCRIPTS[script].to_string()) } })
}

pub fn run(prop: &'static str, tier: Tier) -> i32 {
    let ctx = Ctx::new(prop, "exploration", tier);
    let mut stats = Stats::new();
    stats.sample_cap = 8;
    crate::run_regressions(&ctx, &mut stats, if prop == "C07" { replay_c07 } else { replay_c19 });
    let nontrivial = if prop == "C07" { nontrivial_c07 } else { nontrivial_c19 };
    let tokens3 = vec!["T0".to_string(), "T1".to_string(), "T2".to_string()];
    let base = |max: usize, steps: Vec<HOp>, k: usize| History {
        max,
        tokens: tokens3.clone(),
        receipts: if k % 7 == 3 { vec![0, 4242, 17, 9999, 1] } else { vec![17, 4242, 17, 9999, 1] },
        dangling: if prop == "C19" && k % 3 == 1 { Some(if k % 9 == 4 { 0 } else { 3001 }) } else { None },
        steps,
        eod: if prop == "C19" { match k % 4 { 0 => vec![RevOut::Completion], 1 => vec![RevOut::Abort(0xa0)], 2 => vec![RevOut::Abort(0xa1), RevOut::Completion], _ => vec![RevOut::Completion, RevOut::Abort((k % 256) as u8)] } } else { vec![RevOut::Completion] },
        dangling_reversal: if prop == "C19" && k % 5 == 4 { vec![RevOut::Abort(0xb5)] } else { vec![RevOut::Completion] },
        intermediates: k % 2,
        password: 123456,
        status_script: if k % 3 == 0 { None } else { Some(STATUS_SCRIPTS[(k / 3) % STATUS_SCRIPTS.len()].to_string()) },
    };
    // bounded-exhaustive histories: every outcome combination up to `d_out`, success-only up to `d_succ`
    let (d_out, d_succ) = tier.pick((3usize, 4usize), (4, 5));
    let alts_out = alternatives(3, true);
    let alts_succ = alternatives(3, false);
    let firsts: Vec<(bool, usize)> = (0..alts_out.len()).map(|i| (true, i)).chain((0..alts_succ.len()).map(|i| (false, i))).collect();
    let s = ctx.shards("exhaustive", firsts.len() as u64 * 4, |i, _seed, st| {
        let (with_out, first) = firsts[(i / 4) as usize];
        let max = (i % 4) as usize;
        let (alts, depth) = if with_out { (&alts_out, d_out) } else { (&alts_succ, d_succ) };
        // enumerate all histories of length 1..=depth starting with alts[first]
        let mut stack: Vec<Vec<usize>> = vec![vec![first]];
        let mut k = 0usize;
        while let Some(cur) = stack.pop() {
            // success-only histories shorter than d_out+1 are already part of the outcome enumeration
            if with_out || cur.len() > d_out {
                let h = base(max, cur.iter().map(|a| alts[*a].clone()).collect(), k);
                k += 1;
                let (exp, _) = walk(&h);
                st.case(nontrivial(&exp, h.steps.len()), fnv(&serde_json::to_vec(&h).unwrap()));
                st.class(&format!("exhaustive:len={}", cur.len()));
                if k == 40 && max == 2 {
                    st.sample(|| serde_json::to_value(&h).unwrap());
                }
                ctx.record(check_history(prop, &h), st);
            }
            if cur.len() < depth {
                for a in 0..alts.len() {
                    let mut n = cur.clone();
                    n.push(a);
                    stack.push(n);
                }
            }
        }
    });
    stats.merge(s);
    // C19: every end-of-day abort code once
    if prop == "C19" {
        for code in 0..=255u8 {
            for dang in [None, Some(77u64)] {
                let h = History { max: 1, tokens: tokens3.clone(), receipts: vec![55], dangling: dang, steps: vec![HOp::Begin { tok: 0, out: BeginOut::Success }, HOp::Commit { tok: 0, amount: 5, out: RevOut::Completion }], eod: vec![RevOut::Abort(code), RevOut::Completion], dangling_reversal: vec![RevOut::Completion], intermediates: 0, password: 4711, status_script: None };
                stats.case(true, fnv(&serde_json::to_vec(&h).unwrap()));
                stats.class("end-of-day-abort-code");
                ctx.record(check_history(prop, &h), &mut stats);
            }
        }
    }
    // random walks
    let n: u32 = tier.pick(20_000, 500_000);
    let s = ctx.shards("walks", 32, |_i, seed, st| {
        ctx.proptest(seed, n / 32, &history_strategy(), st, |h, st| {
            let (exp, _) = walk(h);
            st.case(nontrivial(&exp, h.steps.len()), fnv(&serde_json::to_vec(h).unwrap()));
            st.class(if h.steps.len() > 10 { "walk:len>10" } else { "walk:len<=10" });
            if h.tokens[0].is_empty() {
                st.class("walk:blank-tokens");
            }
            if h.tokens.iter().all(|t| t.len() >= 7) && h.tokens[0][..7] == h.tokens[1][..7] {
                st.class("walk:long-tokens-with-a-common-prefix");
            }
            if let Some(p) = exp.iter().position(|c| matches!(c.op, Op::Configure)) {
                if exp[..p].iter().any(|c| c.accepted && matches!(c.op, Op::Begin(_))) {
                    st.class("walk:configure-refused-after-a-begin");
                }
            }
            if exp.iter().any(|c| matches!(&c.cleanup, Some(cl) if cl.iter().any(|r| matches!(r, ExpReq::PreAuthReversal { .. })))) {
                st.class("walk:dangling-reversed");
            }
            if exp.iter().any(|c| matches!(&c.cleanup, Some(cl) if cl.iter().any(|r| matches!(r, ExpReq::PreAuthReversal { receipt: 0 })))) {
                st.class("walk:dangling-receipt-0000-reversed");
            }
            if exp.iter().take(h.steps.len()).any(|c| !c.accepted) {
                st.class("walk:has-refused-call");
            }
            check_history(prop, h)
        });
    });
    stats.merge(s);
    stats.exhaustive_parts = vec![format!("all begin/commit/cancel histories over 3 tokens x max 0..3: every terminal outcome combination up to length {d_out}, success-only up to length {d_succ}; each followed by a drain (cancel of every token)")];
    let (rule, assume): (&str, Vec<&str>) = if prop == "C07" {
        (
            "real Feig client vs simulated terminal (paused time) stepped alongside a reference ClientModel {open: token -> receipt, max}. Histories: bounded-exhaustive over 3 tokens x max 0..3 x terminal outcomes {success with generated (possibly repeated) receipt, abort, no receipt; completion, abort}, then proptest walks to length 40 over 5 tokens (two arbitrary CP437 strings, five long tokens that differ only behind a common prefix of 7..63 characters, or blank / nearly blank tokens). After every call: result class, traffic (refused: zero bytes and no connection; accepted begin: exactly one Reservation; commit/cancel: first request carries that token's receipt); at the end a drain cancels every token of the alphabet. non-trivial = history with a refused call and an accepted commit/cancel; distinct by (config, history, outcomes)",
            vec!["requests are decoded by the reference codec, never by the repo's", "fault-free transport; faults are C09/C10"],
        )
    } else {
        (
            "same histories as C07 (receipt numbers 0000..9999, 0000 over-weighted) x ledgers with/without a dangling pre-authorisation (also created naturally by no-receipt reservations and aborted reversals) x end-of-day outcomes {completion, abort a0, other codes; all 256 codes once} x dangling-reversal outcomes. Oracle over the decoded request log of each accepted commit/cancel: own exchange completed and no token open => exactly pending query -> reversal of the reported receipt (iff one is reported) -> end-of-day(password), result Ok on completion or a0, Aborted(c) otherwise; tokens still open => no pending query and no end-of-day. non-trivial = history in which one commit/cancel leaves others open and a later one empties the map; distinct by history",
            vec!["the simulated terminal reports the dangling pre-authorisation (or its lowest open receipt) to the FFFF query, as the captured partial_reversal.blob does", "requests are decoded by the reference codec"],
        )
    };
    ctx.finish(stats, rule, &assume, false)
}

pub fn run_c07(t: Tier) -> i32 {
    run("C07", t)
}
pub fn run_c19(t: Tier) -> i32 {
    run("C19", t)
}

#[allow(dead_code)]
fn _unused() -> Value {
    json!(null)
}
