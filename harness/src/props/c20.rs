//! C20 — a terminal abort always surfaces as an error identifying its result code.
use crate::engine::*;
use crate::scenario::*;
use crate::sim::*;
use proptest::prelude::*;
use serde::{Deserialize, Serialize};
use serde_json::{json, Value};

const P: &str = "C20";

/// My own copy of the result-code table (ZVT specification chapter 10).
pub const MESSAGES: [(u8, &str); 79] = [
    (0x64, "card not readable (LRC-/parity-error)"),
    (0x65, "card-data not present (neither track-data nor chip found)"),
    (0x66, "processing-error (also for problems with card-reader mechanism)"),
    (0x67, "function not permitted for ec- and Maestro-cards"),
    (0x68, "function not permitted for credit- and tank-cards"),
    (0x6a, "turnover-file full"),
    (0x6b, "function deactivated (PT not registered)"),
    (0x6c, "abort via timeout or abort-key"),
    (0x6e, "card in blocked-list (response to command 06 E4)"),
    (0x6f, "wrong currency"),
    (0x71, "credit not sufficient (chip-card)"),
    (0x72, "chip error"),
    (0x73, "card-data incorrect (e.g. country-key check, checksum-error)"),
    (0x74, "DUKPT engine exhausted"),
    (0x75, "text not authentic"),
    (0x76, "PAN not in white list"),
    (0x77, "end-of-day batch not possible"),
    (0x78, "card expired"),
    (0x79, "card not yet valid"),
    (0x7a, "card unknown"),
    (0x7b, "fallback to magnetic stripe for girocard not possible"),
    (0x7c, "fallback to magnetic stripe not possible (used for non girocard cards)"),
    (0x7d, "communication error (communication module does not answer or is not present)"),
    (0x7e, "fallback to magnetic stripe not possible, debit advice possible (used only for giro-card)"),
    (0x83, "function not possible"),
    (0x85, "key missing"),
    (0x89, "PIN-pad defective"),
    (0x9a, "ZVT protocol error. e. g. parsing error, mandatory message element missing"),
    (0x9b, "error from dial-up/communication fault"),
    (0x9c, "please wait"),
    (0xa0, "receiver not ready"),
    (0xa1, "remote station does not respond"),
    (0xa3, "no connection"),
    (0xa4, "submission of Geldkarte not possible"),
    (0xa5, "function not allowed due to PCI-DSS/P2PE rules"),
    (0xb1, "memory full"),
    (0xb2, "merchant-journal full"),
    (0xb4, "already reversed"),
    (0xb5, "reversal not possible"),
    (0xb7, "pre-authorization incorrect (amount too high) or amount wrong"),
    (0xb8, "error pre-authorization"),
    (0xbf, "voltage supply to low (external power supply)"),
    (0xc0, "card locking mechanism defective"),
    (0xc1, "merchant-card locked"),
    (0xc2, "diagnosis required"),
    (0xc3, "maximum amount exceeded"),
    (0xc4, "card-profile invalid. New card-profiles must be loaded."),
    (0xc5, "payment method not supported"),
    (0xc6, "currency not applicable"),
    (0xc8, "amount too small"),
    (0xc9, "max. transaction-amount too small"),
    (0xcb, "function only allowed in EURO"),
    (0xcc, "printer not ready"),
    (0xcd, "Cashback not possible"),
    (0xd2, "function not permitted for service-cards/bank-customer-cards"),
    (0xdc, "card inserted"),
    (0xdd, "error during card-eject (for motor-insertion reader)"),
    (0xde, "error during card-insertion (for motor-insertion reader)"),
    (0xe0, "remote-maintenance activated"),
    (0xe2, "card-reader does not answer / card-reader defective"),
    (0xe3, "shutter closed"),
    (0xe4, "Terminal activation required"),
    (0xe7, "min. one goods-group not found"),
    (0xe8, "no goods-groups-table loaded"),
    (0xe9, "restriction-code not permitted"),
    (0xea, "card-code not permitted (e.g. card not activated via Diagnosis)"),
    (0xeb, "function not executable (PIN-algorithm unknown)"),
    (0xec, "PIN-processing not possible"),
    (0xed, "PIN-pad defective"),
    (0xf0, "open end-of-day batch present"),
    (0xf1, "ec-cash/Maestro offline error"),
    (0xf5, "OPT-error"),
    (0xf6, "OPT-data not available (= OPT personalization required)"),
    (0xfa, "error transmitting offline-transactions (clearing error)"),
    (0xfb, "turnover data-set defective"),
    (0xfc, "necessary device not present or defective"),
    (0xfd, "baudrate not supported"),
    (0xfe, "register unknown"),
    (0xff, "system error (= other/unknown error), See TLV tags 1F16 and 1F17"),
];

#[derive(Serialize, Deserialize, Clone, Debug, PartialEq)]
pub struct AbortCase {
    /// "read_card" | "begin" | "commit" | "cancel" | "configure"
    pub op: String,
    /// exchange of the operation that is aborted
    pub site: Kind,
    pub code: u8,
    /// intermediate packets before the abort (position in the reply script)
    pub intermediates: usize,
    /// a print line and a status information (with receipt number) precede the abort
    #[serde(default)]
    pub after_status: bool,
    /// the abort packet itself carries a receipt-number field (06 1E 04 <code> 87 nn nn)
    #[serde(default)]
    pub with_receipt: Option<u64>,
    /// the abort packet carries further data objects behind the code (`sim::ABORT_EXTRAS[i]`: expected currency, TLV container
    /// with extended error code / text, receipt number)
    #[serde(default)]
    pub extra: Option<usize>,
    /// the first attempt of the exchange loses its connection at this packet position (0 = instead of the acknowledgement,
    /// 1 = instead of the first reply, 99 = instead of the completion, i.e. behind the status information); the abort answers
    /// the re-sent request on the new connection. 98 = no fault in the call itself: the terminal dropped the idle connection
    /// after an earlier read_card, so the call's first write meets a dead connection
    #[serde(default)]
    pub prior_fault: Option<usize>,
    /// with `prior_fault` = 98: the reconnect's handshake packets are this many ms late each, and the abort comes this many
    /// ms after the acknowledgement - every wait inside the time-out, their sum beyond it
    #[serde(default)]
    pub slow: Option<(u64, u64)>,
    /// another transaction is open on the same client while the aborted call runs (max_transactions = 2)
    #[serde(default)]
    pub others_open: bool,
    /// a dangling pre-authorisation exists (needed for the dangling-reversal site)
    pub dangling: bool,
    pub terminal_id_differs: bool,
}

/// (operation, site, needs dangling, needs differing terminal id)
pub const SITES: [(&str, Kind, bool, bool); 16] = [
    ("read_card", Kind::ReadCard, false, false),
    ("begin", Kind::Reservation, false, false),
    ("commit", Kind::PartialReversal, false, false),
    ("commit", Kind::PendingQuery, false, false),
    ("commit", Kind::PreAuthReversal, true, false),
    ("commit", Kind::EndOfDay, false, false),
    ("cancel", Kind::PreAuthReversal, false, false),
    ("cancel", Kind::PendingQuery, false, false),
    ("cancel", Kind::EndOfDay, false, false),
    ("configure", Kind::SystemInfo, false, false),
    ("configure", Kind::SetTerminalId, false, true),
    ("configure", Kind::Init, false, false),
    ("configure", Kind::PendingQuery, false, false),
    ("configure", Kind::PreAuthReversal, true, false),
    ("configure", Kind::EndOfDay, false, false),
    ("cancel", Kind::EndOfDay, true, false),
];

thread_local! {
    /// set by check_abort when the aborted exchange never took place (the case says nothing)
    pub static NOT_REACHED: std::cell::Cell<bool> = const { std::cell::Cell::new(false) };
}

pub fn check_abort(c: &AbortCase) -> CheckResult {
    NOT_REACHED.with(|n| n.set(false));
    let input = serde_json::to_value(c).unwrap();
    let site = format!("{:?}", c.site);
    let v = |kind: &str, detail: String| Err(Violation::new("abort", format!("C20 op={} site={site} kind={kind}", c.op), detail, input.clone()));
    let mut sc = Scenario { cfg: CfgSpec { terminal_id: if c.terminal_id_differs { "11112222".into() } else { "52523535".into() }, ..Default::default() }, ..Default::default() };
    sc.sim.intermediates = c.intermediates;
    sc.sim.card_replies = vec![crate::props::c10::card_reply_hex()];
    sc.sim.dangling = if c.dangling { Some(4242) } else { None };
    sc.sim.receipts = vec![321, 654];
    if c.others_open {
        sc.cfg.max = 2;
    }
    let tok = "TOKEN".to_string();
    match c.op.as_str() {
        "read_card" => sc.ops = vec![Op::ReadCard],
        "begin" => sc.ops = vec![Op::Begin(tok.clone())],
        "commit" => {
            sc.setup = vec![Op::Begin(tok.clone())];
            sc.ops = vec![Op::Commit(tok.clone(), 1000)];
        }
        "cancel" => {
            sc.setup = vec![Op::Begin(tok.clone())];
            sc.ops = vec![Op::Cancel(tok.clone())];
        }
        "configure" => sc.ops = vec![Op::Configure],
        _ => return Ok(()),
    }
    if c.others_open {
        sc.setup.push(Op::Begin("OTHER".into()));
    }
    // which occurrence of the site kind (relative to the observed call) is the aborted exchange
    let occ = match (c.op.as_str(), c.site) {
        ("cancel", Kind::PreAuthReversal) => 0,
        (_, Kind::PreAuthReversal) if c.op == "commit" || c.op == "configure" => 0,
        _ => 0,
    };
    // in `cancel`, the dangling reversal is the second PreAuthReversal: not a separate site (same code path as configure's)
    // (a reconnect vets the new connection with its own system-info exchange: the re-sent system info is the third one)
    // prior_fault 98: an earlier read_card completes, the terminal drops the idle connection, and the observed call (whose
    // first write meets the dead connection) is answered by the abort
    let idle = c.prior_fault == Some(98);
    let (abort_occ, need_in_call) = match c.prior_fault {
        None => (occ, occ + 1),
        Some(98) => {
            let shift = if c.site == Kind::SystemInfo || c.site == Kind::ReadCard { 1 } else { 0 };
            (occ + shift, occ + 1 + if c.site == Kind::SystemInfo { 1 } else { 0 })
        }
        Some(_) => {
            let n = occ + if c.site == Kind::SystemInfo { 2 } else { 1 };
            (n, n + 1)
        }
    };
    sc.plan = vec![PlanEntry { kind: c.site, occ: Some(abort_occ), from_start: false, directive: Directive { outcome: if let Some(x) = c.extra { Outcome::AbortExtended(c.code, x) } else if let Some(rc) = c.with_receipt { Outcome::AbortWithReceipt(c.code, rc) } else if c.after_status { Outcome::AbortAfterStatus(c.code) } else { Outcome::Abort(c.code) }, ..Default::default() } }];
    if let (true, Some((dh, dr))) = (idle && !matches!(c.site, Kind::SystemInfo | Kind::Registration), c.slow) {
        sc.plan[0].directive.delay_ms = Some((1, dr));
        for k in [Kind::Registration, Kind::SystemInfo] {
            sc.plan.push(PlanEntry { kind: k, occ: Some(0), from_start: false, directive: Directive { delay_ms: Some((98, dh)), ..Default::default() } });
        }
    }
    if idle {
        sc.ops.insert(0, Op::ReadCard);
        sc.plan.push(PlanEntry { kind: Kind::ReadCard, occ: Some(0), from_start: false, directive: Directive { fault: Some((FaultKind::Close, 99)), ..Default::default() } });
    } else if let Some(p) = c.prior_fault {
        let chatty = matches!(c.site, Kind::Init | Kind::EndOfDay | Kind::ReadCard | Kind::Reservation | Kind::PartialReversal | Kind::PreAuthReversal);
        let pos = if p == 99 { 1 + if chatty { c.intermediates } else { 0 } + 1 } else { p };
        sc.plan.push(PlanEntry { kind: c.site, occ: Some(occ), from_start: false, directive: Directive { fault: Some((FaultKind::Close, pos)), ..Default::default() } });
    }
    let tr = guard(|| run_scenario(&sc)).map_err(|p| Violation::new("abort", format!("C20 op={} kind=harness-panic", c.op), p, input.clone()))?;
    if !tr.new_returned {
        return Ok(());
    }
    let call = tr.calls.last().unwrap();
    // the aborted exchange must actually have happened (otherwise the case says nothing)
    let reqs = decoded_requests(&tr.world, call.req_from, call.req_to);
    if reqs.iter().filter(|r| r.0 == c.site).count() < need_in_call {
        NOT_REACHED.with(|n| n.set(true));
        return Ok(());
    }
    if let Some(p) = &call.panicked {
        return v("panic", format!("{} panicked: {p}", c.op));
    }
    let Some(got) = &call.result else { return v("did-not-return", String::new()) };
    let code = c.code;
    // the pending query is answered by an abort by design (b8 + receipt): only other codes abort that exchange
    if c.site == Kind::PendingQuery && code == 0xb8 {
        return Ok(());
    }
    // (with a receipt-number field the b8 answer of the pending query is the regular "this one is pending" reply)
    // documented translations
    if c.site == Kind::EndOfDay && code == 0xa0 {
        return match got {
            Ok(_) => Ok(()),
            Err(e) => v("receiver-not-ready-not-tolerated", format!("end-of-day refused with a0 must be tolerated; got {e:?}")),
        };
    }
    if c.site == Kind::ReadCard && code == 0x6c {
        return match got {
            Err(ErrClass::NoCardPresented) => Ok(()),
            other => v("timeout-not-no-card", format!("got {other:?}")),
        };
    }
    if c.site == Kind::Reservation && code == 0xfc {
        return match got {
            Err(ErrClass::NeedsPinEntry) => Ok(()),
            other => v("device-missing-not-pin-entry", format!("got {other:?}")),
        };
    }
    match got {
        Ok(r) => v("abort-reported-as-success", format!("the terminal aborted {site} with code {code:#04x} during {}; the call returned Ok({r:?})", c.op)),
        Err(e) => {
            let text = call.error_text.clone().unwrap_or_default();
            let by_class = *e == ErrClass::Aborted(code);
            let by_number = text.contains(&format!("0x{code:X}")) || text.contains(&format!("0x{code:x}")) || text.split(|ch: char| !ch.is_ascii_digit()).any(|w| w == code.to_string());
            let by_message = c.op == "read_card" && MESSAGES.iter().any(|(k, m)| *k == code && text.contains(m));
            // a translation reserved for another code must not be used
            let wrong_translation = matches!(e, ErrClass::NoCardPresented | ErrClass::NeedsPinEntry);
            if (by_class || by_number || by_message) && !wrong_translation {
                Ok(())
            } else {
                v("error-does-not-identify-code", format!("the terminal aborted {site} with code {code:#04x} during {}; error {e:?} / text {text:?} names neither the code nor (for read_card) its message", c.op))
            }
        }
    }
}

pub fn replay(_c: &str, i: &Value) -> Option<CheckResult> {
    Some(check_abort(&serde_json::from_value(i.clone()).ok()?))
}

pub fn run(tier: Tier) -> i32 {
    let ctx = Ctx::new(P, "exploration", tier);
    let mut stats = Stats::new();
    stats.sample_cap = 6;
    crate::run_regressions(&ctx, &mut stats, replay);
    // all 256 codes x every site x position of the abort (directly after the ack / after 1..3 intermediates)
    let s = ctx.shards("codes", SITES.len() as u64 * 4, |i, _seed, st| {
        let (op, site, dangling, tid) = SITES[(i / 4) as usize];
        let part = (i % 4) as u32;
        let mut code = part;
        while code < 256 {
            for inter in [0usize, 1, 3] {
                let chatty = matches!(site, Kind::Init | Kind::EndOfDay | Kind::ReadCard | Kind::Reservation | Kind::PartialReversal | Kind::PreAuthReversal);
                if inter > 0 && !chatty {
                    continue;
                }
                // the abort may also come behind a print line and a status information (declined payment)
                let status_site = matches!(site, Kind::Reservation | Kind::PartialReversal | Kind::PreAuthReversal | Kind::EndOfDay);
                if status_site {
                    let c2 = AbortCase { op: op.to_string(), site, code: code as u8, intermediates: inter, after_status: true, with_receipt: None, extra: None, slow: None, prior_fault: None, others_open: false, dangling, terminal_id_differs: tid };
                    st.case(true, fnv(&serde_json::to_vec(&c2).unwrap()));
                    st.class(&format!("{op}/{site:?}:after-status-information"));
                    ctx.record(check_abort(&c2), st);
                }
                // the reversal / end-of-day family may put a receipt-number field into the abort packet itself
                if matches!(site, Kind::PendingQuery | Kind::PartialReversal | Kind::PreAuthReversal | Kind::EndOfDay) && inter == 0 {
                    for rc in [0xffffu64, 4711] {
                        let c3 = AbortCase { op: op.to_string(), site, code: code as u8, intermediates: 0, after_status: false, with_receipt: Some(rc), extra: None, slow: None, prior_fault: None, others_open: false, dangling, terminal_id_differs: tid };
                        st.case(true, fnv(&serde_json::to_vec(&c3).unwrap()));
                        st.class(&format!("{op}/{site:?}:abort-with-receipt-field"));
                        ctx.record(check_abort(&c3), st);
                    }
                }
                // the abort packet may carry more than the code: the expected currency, a TLV container with an extended error
                // code / text, a receipt number (the code is the first byte in every form)
                if inter <= 1 {
                    for x in 0..crate::sim::ABORT_EXTRAS.len() {
                        let c6 = AbortCase { op: op.to_string(), site, code: code as u8, intermediates: inter, after_status: false, with_receipt: None, extra: Some(x), slow: None, prior_fault: None, others_open: false, dangling, terminal_id_differs: tid };
                        st.case(true, fnv(&serde_json::to_vec(&c6).unwrap()));
                        st.class(&format!("{op}/{site:?}:abort-with-further-data-objects"));
                        ctx.record(check_abort(&c6), st);
                    }
                }
                // the call has to reconnect first (the terminal dropped the idle connection), the handshake is slow and so is the
                // abort: each wait inside the time-out of the exchange, their sum beyond it
                if inter == 0 && !matches!(site, Kind::SystemInfo | Kind::Registration) {
                    let slow = if site == Kind::ReadCard { (4_000u64, 12_000u64) } else if code % 2 == 0 { (25_000, 25_000) } else { (5_000, 55_000) };
                    let c7 = AbortCase { op: op.to_string(), site, code: code as u8, intermediates: 0, after_status: false, with_receipt: None, extra: None, slow: Some(slow), prior_fault: Some(98), others_open: false, dangling, terminal_id_differs: tid };
                    st.case(true, fnv(&serde_json::to_vec(&c7).unwrap()));
                    st.class(&format!("{op}/{site:?}:slow-reconnect-then-slow-abort"));
                    ctx.record(check_abort(&c7), st);
                    if NOT_REACHED.with(|n| n.get()) {
                        st.class(&format!("{op}/{site:?}:slow-reconnect-then-slow-abort:not-reached"));
                    }
                }
                // the same abort while another transaction is open on the client (own exchanges of begin / commit / cancel)
                if inter <= 1 && matches!((op, site), ("begin", Kind::Reservation) | ("commit", Kind::PartialReversal) | ("cancel", Kind::PreAuthReversal)) && !dangling {
                    for after_status in [false, true] {
                        let c5 = AbortCase { op: op.to_string(), site, code: code as u8, intermediates: inter, after_status, with_receipt: None, extra: None, slow: None, prior_fault: None, others_open: true, dangling, terminal_id_differs: tid };
                        st.case(true, fnv(&serde_json::to_vec(&c5).unwrap()));
                        st.class(&format!("{op}/{site:?}:another-transaction-open"));
                        ctx.record(check_abort(&c5), st);
                    }
                }
                // the abort answers a request that was re-sent after the first attempt lost its connection
                if inter <= 1 {
                    let mut priors = vec![0usize, 1, 98];
                    if status_site {
                        priors.push(99);
                    }
                    for pf in priors {
                        for after_status in [false, true] {
                            if after_status && !status_site {
                                continue;
                            }
                            let c4 = AbortCase { op: op.to_string(), site, code: code as u8, intermediates: inter, after_status, with_receipt: None, extra: None, slow: None, prior_fault: Some(pf), others_open: false, dangling, terminal_id_differs: tid };
                            st.case(true, fnv(&serde_json::to_vec(&c4).unwrap()));
                            st.class(&format!("{op}/{site:?}:abort-of-the-re-sent-request"));
                            ctx.record(check_abort(&c4), st);
                            if NOT_REACHED.with(|n| n.get()) {
                                st.class(&format!("{op}/{site:?}:abort-of-the-re-sent-request:not-reached(exchange-is-not-retried)"));
                            }
                        }
                    }
                }
                let c = AbortCase { op: op.to_string(), site, code: code as u8, intermediates: inter, after_status: false, with_receipt: None, extra: None, slow: None, prior_fault: None, others_open: false, dangling, terminal_id_differs: tid };
                st.case(true, fnv(&serde_json::to_vec(&c).unwrap()));
                st.class(&format!("{op}/{site:?}"));
                if code == 0x64 && inter == 1 {
                    st.sample(|| serde_json::to_value(&c).unwrap());
                }
                ctx.record(check_abort(&c), st);
            }
            code += 4;
        }
    });
    stats.merge(s);
    // thorough: random configurations around the abort
    if tier == Tier::Thorough {
        let s = ctx.shards("random", 16, |_i, seed, st| {
            let strat = (0usize..SITES.len(), any::<u8>(), 0usize..6, any::<bool>());
            ctx.proptest(seed, 20_000, &strat, st, |(si, code, inter, dang), st| {
                let (op, site, dangling, tid) = SITES[*si];
                let c = AbortCase { op: op.to_string(), site, code: *code, intermediates: *inter, after_status: *inter % 2 == 1, with_receipt: if *inter % 3 == 2 { Some(*code as u64 * 7 % 9999) } else { None }, extra: None, slow: None, prior_fault: match *inter { 4 => Some(0), 5 => Some(99), _ => None }, others_open: *inter == 3 && matches!(site, Kind::PartialReversal | Kind::PreAuthReversal | Kind::Reservation), dangling: dangling || *dang, terminal_id_differs: tid };
                st.case(true, fnv(&serde_json::to_vec(&c).unwrap()));
                st.class("random");
                check_abort(&c)
            });
        });
        stats.merge(s);
    }
    stats.exhaustive_parts = vec!["all 256 result codes x 16 (operation, exchange) sites x abort directly after the ack / after 1 and 3 intermediate packets / behind a print line and a status information carrying a receipt number / as the answer to a request re-sent after the first attempt lost its connection (instead of the acknowledgement, of the first reply, of the completion) / while another transaction is open on the client / as a slow answer (12..55 s) on a connection re-established inside the call by a slow handshake (each wait inside the time-out, the sum beyond it) / with 11 forms of further data objects behind the code (untagged currency of ZVT 2.2.9, tagged currency, TLV container with extended error code of 1 / 2 / 8 bytes and text, empty container, receipt number + currency)".into()];
    ctx.finish(
        stats,
        "enumeration: every result code 0..255 x every exchange in which the terminal may abort (read_card; begin: Reservation; commit: PartialReversal, pending query, dangling reversal, end-of-day; cancel: PreAuthReversal, pending query, end-of-day; configure: system info, SetTerminalId, Initialization, pending query, dangling reversal, end-of-day) x position of the abort in the reply script. Oracle: the call returns Err whose chain contains ZVTError::Aborted(c), or whose text contains the code (hex or decimal), or - for read_card - the specification's message for c (own copy of the chapter-10 table); documented translations checked positively (read_card+6c => NoCardPresented, Reservation+fc => NeedsPinEntry, end-of-day+a0 => Ok). For the pending query only codes != b8 count as aborts. non-trivial = every case; distinct by (op, site, code, position)",
        &["aborts during the connection handshake are connection failures (C09), not sites of this property", "MESSAGES is my transcription of the ZVT chapter-10 result codes"],
        true,
    )
}

#[allow(dead_code)]
fn _p() {
    let _ = (json!(null), proptest::bool::ANY);
}
