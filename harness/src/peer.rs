//! Scripted peer (DESIGN.md 6.1): an in-memory AsyncRead + AsyncWrite handed to the real PacketTransport.
//! The harness owns the chunk schedule and the release of reply packets; nothing depends on timing.
use std::io;
use std::pin::Pin;
use std::task::{Context, Poll};
use tokio::io::{AsyncRead, AsyncWrite, ReadBuf};

#[derive(Debug, Clone, PartialEq)]
pub enum Ev {
    /// bytes written by the client in one poll_write
    Write(Vec<u8>),
    /// a poll_write that was refused (connection gone)
    WriteFailed,
    /// one successful poll_read: buffer space offered, bytes delivered
    Read { asked: usize, got: usize },
    /// the client polled for data while nothing was released / the stream had ended
    ReadNoData,
    Eof,
    /// marker inserted by the harness: item `n` was handed to the caller (Ok / Err / None)
    Item(usize, &'static str),
}

pub struct Peer {
    /// entry 0 = what the terminal sends at the acknowledgement position, entries 1.. = reply packets
    pub script: Vec<Vec<u8>>,
    /// bytes queued behind the final script entry
    pub trailing: Vec<u8>,
    pub next: usize,
    pub inbox: Vec<u8>,
    pub cur: usize,
    pub outbuf: Vec<u8>,
    pub log: Vec<Ev>,
    /// chunk schedule (cycled): at most chunks[i] bytes per poll_read, one Pending (with wake) between two chunks
    pub chunks: Vec<usize>,
    pub chunk_i: usize,
    pub pending_toggle: bool,
    /// complete APDUs written by the client, in order
    pub client_apdus: Vec<Vec<u8>>,
    /// gating: script entries are released by client APDUs (sequence level); false = everything available at once (transport level)
    pub gated: bool,
    /// the stream ends after this many bytes were delivered (transport level)
    pub eof_after: Option<usize>,
    pub reads_after_eof: usize,
    /// the connection is gone for writing once this many complete client APDUs were accepted (None = never): the write of
    /// the next APDU fails with BrokenPipe
    pub fail_writes_after: Option<usize>,
    pub failed_writes: usize,
    /// a poll_write accepts at most this many bytes (short writes, as a socket with a nearly full send buffer); None = all
    pub write_limit: Option<usize>,
    /// where the script is exhausted / the stream ends, poll_read fails with this error kind instead of reporting end of file
    pub end_error: Option<io::ErrorKind>,
    /// once this many bytes were delivered, one poll_read fails with ErrorKind::Interrupted; the bytes behind stay available
    pub interrupt_at: Option<usize>,
}

impl Peer {
    pub fn scripted(script: Vec<Vec<u8>>, trailing: Vec<u8>, chunks: Vec<usize>) -> Self {
        Peer { script, trailing, next: 0, inbox: vec![], cur: 0, outbuf: vec![], log: vec![], chunks, chunk_i: 0, pending_toggle: false, client_apdus: vec![], gated: true, eof_after: None, reads_after_eof: 0, fail_writes_after: None, failed_writes: 0, write_limit: None, end_error: None, interrupt_at: None }
    }
    /// transport level: all `data` is readable at once, optionally ending after `eof_after` bytes
    pub fn preloaded(data: Vec<u8>, chunks: Vec<usize>, eof_after: Option<usize>) -> Self {
        Peer { script: vec![], trailing: vec![], next: 0, inbox: data, cur: 0, outbuf: vec![], log: vec![], chunks, chunk_i: 0, pending_toggle: false, client_apdus: vec![], gated: false, eof_after, reads_after_eof: 0, fail_writes_after: None, failed_writes: 0, write_limit: None, end_error: None, interrupt_at: None }
    }
    fn release(&mut self) {
        if self.next < self.script.len() {
            let p = self.script[self.next].clone();
            self.inbox.extend(p);
            self.next += 1;
            if self.next == self.script.len() {
                let t = self.trailing.clone();
                self.inbox.extend(t);
            }
        }
    }
    fn complete_apdus(&mut self) -> usize {
        let mut n = 0;
        loop {
            let b = &self.outbuf;
            if b.len() < 3 {
                break;
            }
            let (h, l) = if b[2] == 0xff {
                if b.len() < 5 {
                    break;
                }
                (5, u16::from_le_bytes([b[3], b[4]]) as usize)
            } else {
                (3, b[2] as usize)
            };
            if b.len() < h + l {
                break;
            }
            let apdu: Vec<u8> = self.outbuf.drain(..h + l).collect();
            self.client_apdus.push(apdu);
            n += 1;
        }
        n
    }
    pub fn unread(&self) -> &[u8] {
        &self.inbox[self.cur..]
    }
    pub fn delivered(&self) -> usize {
        self.cur
    }
    pub fn mark(&mut self, n: usize, what: &'static str) {
        self.log.push(Ev::Item(n, what));
    }
    fn limit(&self) -> usize {
        match self.eof_after {
            Some(e) => e.min(self.inbox.len()),
            None => self.inbox.len(),
        }
    }
}

impl AsyncWrite for Peer {
    fn poll_write(mut self: Pin<&mut Self>, _: &mut Context<'_>, buf: &[u8]) -> Poll<io::Result<usize>> {
        if let Some(k) = self.fail_writes_after {
            if self.client_apdus.len() >= k {
                self.failed_writes += 1;
                self.log.push(Ev::WriteFailed);
                return Poll::Ready(Err(io::Error::new(io::ErrorKind::BrokenPipe, "connection closed by the terminal")));
            }
        }
        let buf = match self.write_limit {
            Some(k) => &buf[..buf.len().min(k.max(1))],
            None => buf,
        };
        self.log.push(Ev::Write(buf.to_vec()));
        self.outbuf.extend_from_slice(buf);
        let n = self.complete_apdus();
        if self.gated {
            // the first complete client APDU (the command) releases the ack-position entry and the first reply;
            // every further complete APDU answers the last released reply and releases the next one
            for _ in 0..n {
                let first = self.next == 0;
                self.release();
                if first {
                    self.release();
                }
            }
        }
        Poll::Ready(Ok(buf.len()))
    }
    fn poll_flush(self: Pin<&mut Self>, _: &mut Context<'_>) -> Poll<io::Result<()>> {
        Poll::Ready(Ok(()))
    }
    fn poll_shutdown(self: Pin<&mut Self>, _: &mut Context<'_>) -> Poll<io::Result<()>> {
        Poll::Ready(Ok(()))
    }
}

impl AsyncRead for Peer {
    fn poll_read(mut self: Pin<&mut Self>, cx: &mut Context<'_>, buf: &mut ReadBuf<'_>) -> Poll<io::Result<()>> {
        let limit = self.limit();
        if self.cur >= limit {
            // nothing released (the script waits for an answer the client did not give, or is exhausted) / stream ended
            self.reads_after_eof += 1;
            // a client that keeps polling a finished stream loops without progress: stop it (the caller's guard turns
            // the panic into a verdict) instead of hanging the run
            if self.reads_after_eof > 2000 {
                panic!("client polled the connection {} times after its end / with nothing released: loop without progress", self.reads_after_eof);
            }
            if self.reads_after_eof <= 8 {
                self.log.push(Ev::ReadNoData);
                self.log.push(Ev::Eof);
            }
            if let Some(kind) = self.end_error {
                return Poll::Ready(Err(io::Error::new(kind, "connection lost")));
            }
            return Poll::Ready(Ok(()));
        }
        if let Some(at) = self.interrupt_at {
            if self.cur >= at {
                self.interrupt_at = None;
                self.log.push(Ev::ReadNoData);
                return Poll::Ready(Err(io::Error::new(io::ErrorKind::Interrupted, "interrupted")));
            }
        }
        if self.pending_toggle {
            self.pending_toggle = false;
            cx.waker().wake_by_ref();
            return Poll::Pending;
        }
        let chunk = if self.chunks.is_empty() { usize::MAX } else { self.chunks[self.chunk_i % self.chunks.len()].max(1) };
        self.chunk_i += 1;
        let asked = buf.remaining();
        let mut n = asked.min(chunk).min(limit - self.cur);
        if let Some(at) = self.interrupt_at {
            if at > self.cur {
                n = n.min(at - self.cur);
            }
        }
        let (a, b) = (self.cur, self.cur + n);
        let data = self.inbox[a..b].to_vec();
        buf.put_slice(&data);
        self.cur = b;
        self.log.push(Ev::Read { asked, got: n });
        self.pending_toggle = true;
        Poll::Ready(Ok(()))
    }
}

/// In-memory sink for `write_packet`.
#[derive(Default)]
pub struct Sink(pub Vec<u8>);
impl AsyncWrite for Sink {
    fn poll_write(mut self: Pin<&mut Self>, _: &mut Context<'_>, buf: &[u8]) -> Poll<io::Result<usize>> {
        self.0.extend_from_slice(buf);
        Poll::Ready(Ok(buf.len()))
    }
    fn poll_flush(self: Pin<&mut Self>, _: &mut Context<'_>) -> Poll<io::Result<()>> {
        Poll::Ready(Ok(()))
    }
    fn poll_shutdown(self: Pin<&mut Self>, _: &mut Context<'_>) -> Poll<io::Result<()>> {
        Poll::Ready(Ok(()))
    }
}
