//! Encoded tree of a value: the group list the reference encoder produces per struct level, so that edits
//! (permute / duplicate / remove / foreign / re-announce a length) can be applied at any depth and all
//! enclosing length prefixes are recomputed on assembly. Used by C13 and C14.
use crate::refc::*;

#[derive(Clone, Debug)]
pub enum Node {
    Leaf(Vec<u8>),
    Struct(Vec<Group>),
}
/// One encoded item `[tag][length prefix][payload]`.
#[derive(Clone, Debug)]
pub struct Elem {
    pub tag: Option<u16>,
    pub len: Len,
    pub node: Node,
    /// override of the announced length (C14 R3); None = true payload length
    pub announce: Option<usize>,
    /// raw bytes to emit verbatim instead of tag/len/payload (foreign groups)
    pub raw: Option<Vec<u8>>,
    /// bytes to emit instead of the computed length prefix (C02 length-form mutations)
    pub prefix_override: Option<Vec<u8>>,
}
/// All items of one field at one struct level (Opt absent: no items; Vec: one per element).
#[derive(Clone, Debug)]
pub struct Group {
    pub field: usize,
    pub name: String,
    pub tag: Option<u16>,
    pub card: Card,
    pub elems: Vec<Elem>,
    /// layout of the nested struct, if any
    pub nested: Option<String>,
    /// value encoding of the field (Struct for nested)
    pub enc: Enc,
}

fn prefix(len: &Len, n: usize) -> Vec<u8> {
    match len {
        Len::None | Len::Temp => vec![],
        Len::Fixed(w) => vec![0; w.saturating_sub(n)],
        Len::Llv => vec![0xf0 | (n / 10 % 10) as u8, 0xf0 | (n % 10) as u8],
        Len::Lllv => vec![0xf0 | (n / 100 % 10) as u8, 0xf0 | (n / 10 % 10) as u8, 0xf0 | (n % 10) as u8],
        Len::Tlv => match n {
            0..=127 => vec![n as u8],
            128..=255 => vec![0x81, n as u8],
            _ => vec![0x82, (n >> 8) as u8, n as u8],
        },
    }
}

pub fn build(t: &Table, l: &Layout, v: &Val) -> Result<Vec<Group>, String> {
    let Val::St(_, fs) = v else { return Err("not a struct".into()) };
    let mut out = vec![];
    for (i, (f, (_, fv))) in l.fields.iter().zip(fs).enumerate() {
        let items: Vec<&Val> = match (f.card, fv) {
            (Card::One, v) => vec![v],
            (Card::Opt, Val::None) => vec![],
            (Card::Opt, Val::Some(b)) => vec![b.as_ref()],
            (Card::Vec, Val::List(xs)) => xs.iter().collect(),
            _ => return Err("cardinality".into()),
        };
        let mut elems = vec![];
        for it in items {
            if f.enc == Enc::Bytes {
                if let Val::B(b) = it {
                    if b.is_empty() {
                        continue;
                    }
                }
            }
            let node = match &f.enc {
                Enc::Struct(n) => Node::Struct(build(t, &t[n], it)?),
                e => Node::Leaf(enc_payload(t, e, it)?),
            };
            elems.push(Elem { tag: f.tag, len: f.len.clone(), node, announce: None, raw: None, prefix_override: None });
        }
        let nested = if let Enc::Struct(n) = &f.enc { Some(n.clone()) } else { None };
        out.push(Group { field: i, name: f.name.clone(), tag: f.tag, card: f.card, elems, nested, enc: f.enc.clone() });
    }
    Ok(out)
}

pub fn assemble_elem(e: &Elem) -> Vec<u8> {
    if let Some(r) = &e.raw {
        return r.clone();
    }
    let payload = match &e.node {
        Node::Leaf(b) => b.clone(),
        Node::Struct(gs) => assemble(gs),
    };
    let mut o = e.tag.map(tag_bytes).unwrap_or_default();
    match &e.prefix_override {
        Some(p) => o.extend(p.iter()),
        None => o.extend(prefix(&e.len, e.announce.unwrap_or(payload.len()))),
    }
    o.extend(payload);
    o
}
pub fn assemble_group(g: &Group) -> Vec<u8> {
    g.elems.iter().flat_map(assemble_elem).collect()
}
pub fn assemble(gs: &[Group]) -> Vec<u8> {
    gs.iter().flat_map(assemble_group).collect()
}
/// Top-level bytes: APDU for commands.
pub fn assemble_top(l: &Layout, gs: &[Group]) -> Option<Vec<u8>> {
    let body = assemble(gs);
    match l.ctrl {
        Some((c, i)) => apdu(c, i, &body).ok(),
        None => Some(body),
    }
}

/// A path to a struct level: sequence of (group index, element index) steps from the top.
pub type Path = Vec<(usize, usize)>;

/// All struct levels of the tree: (path, inside_vec_element, inside_positional_optional).
pub fn levels(gs: &[Group]) -> Vec<(Path, bool)> {
    fn rec(gs: &[Group], path: &Path, in_vec: bool, out: &mut Vec<(Path, bool)>) {
        out.push((path.clone(), in_vec));
        for (gi, g) in gs.iter().enumerate() {
            for (ei, e) in g.elems.iter().enumerate() {
                if let Node::Struct(inner) = &e.node {
                    let mut p = path.clone();
                    p.push((gi, ei));
                    // failures inside a Vec element or a positional Option are swallowed by the container
                    let swallow = in_vec || g.card == Card::Vec || (g.card == Card::Opt && g.tag.is_none());
                    rec(inner, &p, swallow, out);
                }
            }
        }
    }
    let mut out = vec![];
    rec(gs, &vec![], false, &mut out);
    out
}
pub fn level_mut<'a>(gs: &'a mut Vec<Group>, path: &[(usize, usize)]) -> &'a mut Vec<Group> {
    let mut cur = gs;
    for (gi, ei) in path {
        match &mut cur[*gi].elems[*ei].node {
            Node::Struct(inner) => cur = inner,
            _ => panic!("path does not lead to a struct"),
        }
    }
    cur
}
pub fn level<'a>(gs: &'a [Group], path: &[(usize, usize)]) -> &'a [Group] {
    let mut cur = gs;
    for (gi, ei) in path {
        match &cur[*gi].elems[*ei].node {
            Node::Struct(inner) => cur = inner,
            _ => panic!("path does not lead to a struct"),
        }
    }
    cur
}

/// Every tag number that occurs anywhere in the layout tree of `name` (including the date-time sub-tags).
pub fn all_tags(t: &Table, name: &str, out: &mut Vec<u16>) {
    for f in &t[name].fields {
        if let Some(tag) = f.tag {
            out.push(tag);
        }
        match &f.enc {
            Enc::Struct(n) => all_tags(t, n, out),
            Enc::DateTime => out.extend([0x1f0e, 0x1f0f]),
            _ => {}
        }
    }
}

/// Truncate the tree right before position `pos` (index into the group list) of the level at `path`:
/// drops the groups from `pos` on at that level and everything after the enclosing containers at all ancestor levels.
pub fn truncate_at(gs: &mut Vec<Group>, path: &[(usize, usize)], pos: usize) {
    fn rec(gs: &mut Vec<Group>, path: &[(usize, usize)], pos: usize) {
        match path.split_first() {
            None => gs.truncate(pos),
            Some(((gi, ei), rest)) => {
                gs.truncate(gi + 1);
                gs[*gi].elems.truncate(ei + 1);
                if let Node::Struct(inner) = &mut gs[*gi].elems[*ei].node {
                    rec(inner, rest, pos);
                }
            }
        }
    }
    rec(gs, path, pos);
}

/// Byte offset (in the assembled body of the top level) at which group `pos` of the level at `path` starts.
pub fn offset_of(gs: &[Group], path: &[(usize, usize)], pos: usize) -> usize {
    match path.split_first() {
        None => gs[..pos].iter().map(|g| assemble_group(g).len()).sum(),
        Some(((gi, ei), rest)) => {
            let mut off: usize = gs[..*gi].iter().map(|g| assemble_group(g).len()).sum();
            off += gs[*gi].elems[..*ei].iter().map(|e| assemble_elem(e).len()).sum::<usize>();
            let e = &gs[*gi].elems[*ei];
            let Node::Struct(inner) = &e.node else { panic!() };
            let payload = assemble(inner).len();
            off += e.tag.map(|t| tag_bytes(t).len()).unwrap_or(0) + prefix(&e.len, e.announce.unwrap_or(payload)).len();
            off + offset_of(inner, rest, pos)
        }
    }
}

/// Truncate right before element `ei` of group `gi` at the level `path` (and drop everything after its enclosing containers).
pub fn truncate_before_elem(gs: &mut Vec<Group>, path: &[(usize, usize)], gi: usize, ei: usize) {
    truncate_at(gs, path, gi + 1);
    let lv = level_mut(gs, path);
    lv[gi].elems.truncate(ei);
}
/// Byte offset of element `ei` of group `gi` at the level `path`.
pub fn offset_of_elem(gs: &[Group], path: &[(usize, usize)], gi: usize, ei: usize) -> usize {
    let lv = level(gs, path);
    offset_of(gs, path, gi) + lv[gi].elems[..ei].iter().map(|e| assemble_elem(e).len()).sum::<usize>()
}
/// Innermost step of `path` that enters a Vec element (decode failures below it end the vector silently).
/// Returns (index of the step, is_tagged_vec). Also reports whether a positional Option lies on the path.
pub fn swallowing_step(gs: &[Group], path: &[(usize, usize)]) -> (Option<usize>, bool) {
    let mut cur = gs;
    let mut last = None;
    let mut posopt = false;
    for (k, (gi, ei)) in path.iter().enumerate() {
        let g = &cur[*gi];
        if g.card == Card::Vec {
            last = Some(k);
        }
        if g.card == Card::Opt && g.tag.is_none() {
            posopt = true;
        }
        match &g.elems[*ei].node {
            Node::Struct(inner) => cur = inner,
            _ => break,
        }
    }
    (last, posopt)
}

/// All steps of `path` that enter a Vec element, outermost first.
pub fn swallowing_steps(gs: &[Group], path: &[(usize, usize)]) -> Vec<usize> {
    let mut cur = gs;
    let mut out = vec![];
    for (k, (gi, ei)) in path.iter().enumerate() {
        let g = &cur[*gi];
        if g.card == Card::Vec {
            out.push(k);
        }
        match &g.elems[*ei].node {
            Node::Struct(inner) => cur = inner,
            _ => break,
        }
    }
    out
}

/// Every container of the tree can announce its payload (LLVAR <= 99, LLLVAR <= 999, TLV <= 65535, Fixed<N> <= N).
pub fn fits(gs: &[Group]) -> bool {
    gs.iter().all(|g| {
        g.elems.iter().all(|e| {
            if e.raw.is_some() {
                return true;
            }
            let (n, inner_ok) = match &e.node {
                Node::Leaf(b) => (b.len(), true),
                Node::Struct(inner) => (assemble(inner).len(), fits(inner)),
            };
            inner_ok
                && match e.len {
                    Len::Llv => n <= 99,
                    Len::Lllv => n <= 999,
                    Len::Tlv => n <= 65535,
                    Len::Fixed(w) => n <= w,
                    Len::None | Len::Temp => true,
                }
        })
    })
}
/// A positional field follows the container entered by some step of `path` in its parent level
/// (bytes a nested container leaves unconsumed would be parsed by position there).
pub fn positional_follows_on_path(gs: &[Group], path: &[(usize, usize)]) -> bool {
    let mut cur = gs;
    for (gi, ei) in path {
        if cur[*gi + 1..].iter().any(|g| g.tag.is_none()) {
            return true;
        }
        match &cur[*gi].elems[*ei].node {
            Node::Struct(inner) => cur = inner,
            _ => break,
        }
    }
    false
}
