//! Simulated terminal + virtual time (DESIGN.md 6.2). The real `Feig` client talks to an in-process terminal over
//! in-memory duplex streams on tokio's paused clock; every byte the client reads/writes is logged on the client side.
use crate::refc::*;
use std::collections::{BTreeMap, HashMap};
use std::future::Future;
use std::io;
use std::pin::Pin;
use std::sync::{Arc, Mutex};
use std::task::{Context, Poll};
use std::time::Duration;
use tokio::io::{AsyncRead, AsyncReadExt, AsyncWrite, AsyncWriteExt, DuplexStream, ReadBuf};
use zvt_feig_terminal::config::{Config, FeigConfig};
use zvt_feig_terminal::feig::{CardInfo, Feig};
use zvt_feig_terminal::verif_hook::{set_connector, MemStream};

#[derive(Clone, Copy, Debug, PartialEq, Eq, Hash, PartialOrd, Ord, serde::Serialize, serde::Deserialize)]
pub enum Kind {
    Registration,
    SystemInfo,
    SetTerminalId,
    Init,
    EndOfDay,
    ReadCard,
    Reservation,
    PendingQuery,
    PartialReversal,
    PreAuthReversal,
    Other,
}
impl Kind {
    pub fn layout(self) -> &'static str {
        match self {
            Kind::Registration => "Registration",
            Kind::SystemInfo => "feig.CVendFunctions",
            Kind::SetTerminalId => "SetTerminalId",
            Kind::Init => "Initialization",
            Kind::EndOfDay => "EndOfDay",
            Kind::ReadCard => "ReadCard",
            Kind::Reservation => "Reservation",
            Kind::PendingQuery | Kind::PartialReversal => "PartialReversal",
            Kind::PreAuthReversal => "PreAuthReversal",
            Kind::Other => "Ack",
        }
    }
}
#[derive(Clone, Copy, Debug, PartialEq, Eq, serde::Serialize, serde::Deserialize)]
pub enum FaultKind {
    /// drops the connection instead of sending the packet
    Close,
    /// sends bytes that are not a packet of the reply set, then stays silent
    Garbage,
    /// sends 84 9a 00, then stays silent
    Nack,
    /// sends nothing more on this connection
    Silence,
    /// sends the packet's header (announcing the body), then nothing
    HeaderThenSilence,
}
#[derive(Clone, Debug, PartialEq, serde::Serialize, serde::Deserialize)]
pub enum Outcome {
    Normal,
    /// well-formed 06 1E <code> instead of the exchange's final packet(s)
    Abort(u8),
    /// Reservation: status information without receipt number
    NoReceipt,
    /// 06 1E <code> 87 <receipt>: an abort that also carries a receipt-number field (legal for the reversal / end-of-day
    /// family, whose abort packet has that optional field)
    AbortWithReceipt(u8, u64),
    /// PartialReversal: completion without any status information in front of it
    NoStatus,
    /// a print line and a status information (carrying a receipt number where the exchange has one) and only then
    /// 06 1E <code>: the usual script of a declined payment. Nothing is reserved / reversed.
    AbortAfterStatus(u8),
    /// system info reports another device id
    WrongSerial,
    /// 06 1E <code> followed by further data objects of the abort packet (`ABORT_EXTRAS[i]`): the currency the terminal
    /// expected, a TLV container with an extended error code / text, a receipt number. The code comes first in every form.
    AbortExtended(u8, usize),
}
/// data a terminal may append to the result code of an abort (ZVT 06 1E: result code, then optional objects)
pub const ABORT_EXTRAS: [&[u8]; 11] = [
    // ZVT 2.2.9: `06 1E xx <result code> [<cc>] [06 <TLV>]`, the currency code untagged behind code 6f
    &[0x09, 0x78],
    &[0x09, 0x78, 0x06, 0x05, 0x1f, 0x16, 0x02, 0x00, 0x2a],
    &[0x09, 0x78, 0x06, 0x0f, 0x1f, 0x16, 0x01, 0x07, 0x1f, 0x17, 0x07, b'c', b'u', b'r', b'r', b'?', b'?', b'?'],
    &[0x49, 0x09, 0x78],
    &[0x06, 0x05, 0x1f, 0x16, 0x02, 0x00, 0x2a],
    &[0x49, 0x09, 0x78, 0x06, 0x05, 0x1f, 0x16, 0x02, 0x00, 0x2a],
    &[0x06, 0x0c, 0x1f, 0x17, 0x09, b'w', b'r', b'o', b'n', b'g', b' ', b'c', b'u', b'r'],
    &[0x49, 0x09, 0x78, 0x06, 0x0b, 0x1f, 0x16, 0x08, 0, 0, 0, 0, 0, 0, 0, 0x2a],
    &[0x06, 0x00],
    &[0x87, 0x00, 0x17, 0x49, 0x09, 0x78],
    &[0x49, 0x09, 0x78, 0x06, 0x04, 0x1f, 0x16, 0x01, 0x07],
];
#[derive(Clone, Debug, PartialEq, serde::Serialize, serde::Deserialize)]
pub struct Directive {
    pub outcome: Outcome,
    /// (kind, packet position: 0 = acknowledgement of the command, j = j-th reply)
    pub fault: Option<(FaultKind, usize)>,
    /// sleep this many seconds before sending the packet at the position
    pub delay: Option<(usize, u64)>,
    /// sleep this many milliseconds before sending the packet at the position (position 99 = before every packet,
    /// 98 = before every packet but the acknowledgement)
    #[serde(default)]
    pub delay_ms: Option<(usize, u64)>,
    /// once the exchange is complete the terminal writes these stray bytes (the beginning of a late packet) and then
    /// falls silent on this connection, keeping it open
    #[serde(default)]
    pub stray_after: Option<Vec<u8>>,
}
impl Default for Directive {
    fn default() -> Self {
        Directive { outcome: Outcome::Normal, fault: None, delay: None, delay_ms: None, stray_after: None }
    }
}
#[derive(Clone, Copy, Debug, PartialEq, serde::Serialize, serde::Deserialize)]
pub enum ConnectBehaviour {
    Accept,
    Refuse,
    /// the connector future never resolves
    Stall,
}

#[derive(Clone, Debug, PartialEq)]
pub struct PreAuth {
    pub receipt: u64,
    pub amount: u64,
    pub currency: Option<u64>,
    pub reference: Option<(String, String)>,
}

/// Terminal-side log.
#[derive(Clone, Debug)]
pub enum SEv {
    Rx { conn: usize, t: f64, kind: Kind, occ: usize, apdu: Vec<u8> },
    RxAck { conn: usize, t: f64 },
    Tx { conn: usize, t: f64, apdu: Vec<u8> },
    Fault { conn: usize, t: f64, kind: FaultKind, pos: usize },
    PeerClosed { conn: usize, t: f64 },
    Unexpected { conn: usize, t: f64, apdu: Vec<u8> },
}
/// Client-side log: written by the stream object handed to the client, at the moment the *client* acts.
#[derive(Clone, Debug, PartialEq)]
pub enum CEv {
    ConnectAttempt { conn: usize, t: f64 },
    Open { conn: usize, t: f64 },
    Write { conn: usize, t: f64, bytes: Vec<u8> },
    Read { conn: usize, t: f64, bytes: Vec<u8> },
    ReadEof { conn: usize, t: f64 },
    Drop { conn: usize, t: f64 },
}

pub struct Sim {
    pub t: Arc<Table>,
    pub serial: String,
    pub tid: String,
    pub sw_version: String,
    pub temperature: String,
    /// directives for (kind, occurrence); `default_plan` applies to every occurrence without its own entry
    pub plan: HashMap<(Kind, usize), Directive>,
    pub default_plan: HashMap<Kind, Directive>,
    pub connect_plan: Vec<ConnectBehaviour>,
    pub connect_default: ConnectBehaviour,
    pub seen: HashMap<Kind, usize>,
    pub ledger: Vec<PreAuth>,
    /// receipts issued to successive reservations (cycled)
    pub receipt_seq: Vec<u64>,
    pub receipts_issued: usize,
    /// a pre-authorisation no client token knows about
    pub dangling: Option<u64>,
    /// booked amounts by receipt (C08)
    pub booked: Vec<(u64, u64)>,
    /// number of intermediate statuses before the final packets
    pub intermediates: usize,
    /// the intermediate status packet to send (None: `04 ff 02 17 00`)
    pub intermediate_body: Option<Vec<u8>>,
    /// status informations of a successful reservation, in order: 'R' carries the receipt number the reservation is booked
    /// under, 'N' carries none, 'X' carries a provisional number that is not booked (only in front of 'R'). Default "R".
    pub status_script: String,
    /// amounts reported by the status informations of a reservation, cycled (empty: the requested amount is echoed)
    pub status_amounts: Vec<u64>,
    /// reply packets (after the ack) for ReadCard, built by the check
    pub card_replies: Vec<Vec<u8>>,
    /// status-information packets sent for a PartialReversal (before the completion), built by the check; empty = one default
    pub reversal_status: Vec<Vec<u8>>,
    /// extra packets (print lines etc.) sent before the final packet of Init / EndOfDay
    pub chatter: Vec<Vec<u8>>,
    pub log: Vec<SEv>,
    pub conns: usize,
    pub connect_attempts: usize,
    pub t0: Option<tokio::time::Instant>,
}
pub type Shared = Arc<Mutex<Sim>>;

impl Sim {
    pub fn new(t: Arc<Table>) -> Self {
        Sim {
            t,
            serial: "17FD1E3C".into(),
            tid: "52523535".into(),
            sw_version: "GER-APP-v2.0.9   ".into(),
            temperature: "24.4".into(),
            plan: HashMap::new(),
            default_plan: HashMap::new(),
            connect_plan: vec![],
            connect_default: ConnectBehaviour::Accept,
            seen: HashMap::new(),
            ledger: vec![],
            receipt_seq: vec![100],
            receipts_issued: 0,
            dangling: None,
            booked: vec![],
            intermediates: 0,
            intermediate_body: None,
            status_script: "R".into(),
            status_amounts: vec![],
            card_replies: vec![],
            reversal_status: vec![],
            chatter: vec![],
            log: vec![],
            conns: 0,
            connect_attempts: 0,
            t0: None,
        }
    }
    pub fn now(&self) -> f64 {
        match self.t0 {
            Some(t0) => tokio::time::Instant::now().duration_since(t0).as_secs_f64(),
            None => 0.0,
        }
    }
    /// decoded requests (kind, occurrence, connection, value) in arrival order
    pub fn requests(&self) -> Vec<(Kind, usize, usize, Vec<u8>)> {
        self.log.iter().filter_map(|e| if let SEv::Rx { conn, kind, occ, apdu, .. } = e { Some((*kind, *occ, *conn, apdu.clone())) } else { None }).collect()
    }
    pub fn n_requests(&self) -> usize {
        self.log.iter().filter(|e| matches!(e, SEv::Rx { .. })).count()
    }
}

// ---------------------------------------------------------------------------------------------
// value helpers (reference codec)

pub fn opt_u(x: Option<u64>) -> Val {
    x.map(|v| Val::Some(Box::new(Val::U(v)))).unwrap_or(Val::None)
}
pub fn opt_s(x: Option<&str>) -> Val {
    x.map(|v| Val::Some(Box::new(Val::S(v.to_string())))).unwrap_or(Val::None)
}
/// value of layout `name` with the given fields set and everything else absent / empty
pub fn make(t: &Table, name: &str, set: &[(&str, Val)]) -> Val {
    let l = &t[name];
    Val::St(
        l.name.clone(),
        l.fields
            .iter()
            .map(|f| {
                let v = set.iter().find(|(k, _)| *k == f.name).map(|(_, v)| v.clone()).unwrap_or(match f.card {
                    Card::Opt => Val::None,
                    Card::Vec => Val::List(vec![]),
                    Card::One => match f.enc {
                        Enc::Cp437 | Enc::Hex | Enc::Utf8 => Val::S(String::new()),
                        _ => Val::U(0),
                    },
                });
                (f.name.clone(), v)
            })
            .collect(),
    )
}
pub fn enc(t: &Table, name: &str, v: &Val) -> Vec<u8> {
    encode(t, &t[name], v).expect("encodable")
}
pub fn get<'a>(v: &'a Val, name: &str) -> Option<&'a Val> {
    if let Val::St(_, fs) = v {
        fs.iter().find(|(k, _)| k == name).map(|(_, v)| v)
    } else {
        None
    }
}
pub fn get_u(v: &Val, name: &str) -> Option<u64> {
    match get(v, name)? {
        Val::U(x) => Some(*x),
        Val::Some(b) => match **b {
            Val::U(x) => Some(x),
            _ => None,
        },
        _ => None,
    }
}
pub fn get_some<'a>(v: &'a Val, name: &str) -> Option<&'a Val> {
    match get(v, name)? {
        Val::Some(b) => Some(b),
        _ => None,
    }
}
pub fn get_s(v: &Val, name: &str) -> Option<String> {
    match get(v, name)? {
        Val::S(x) => Some(x.clone()),
        Val::Some(b) => match &**b {
            Val::S(x) => Some(x.clone()),
            _ => None,
        },
        _ => None,
    }
}
pub fn abort_packet(code: u8) -> Vec<u8> {
    vec![0x06, 0x1e, 0x01, code]
}
pub fn completion_packet() -> Vec<u8> {
    vec![0x06, 0x0f, 0x00]
}
pub fn intermediate_packet() -> Vec<u8> {
    vec![0x04, 0xff, 0x02, 0x17, 0x00]
}
pub const ACK: [u8; 3] = [0x80, 0x00, 0x00];
/// a print line and a print text block (receipt chatter a terminal may interleave)
pub fn chatter_packets(t: &Table) -> Vec<Vec<u8>> {
    let lines = make(t, "tlv.TextLines", &[("lines", Val::List(vec![Val::S("RECEIPT".into()), Val::S("".into()), Val::S("TOTAL 1,00".into())])), ("eol", opt_u(Some(255)))]);
    let ptb = make(t, "tlv.PrintTextBlock", &[("receipt_type", opt_u(Some(2))), ("lines", Val::Some(Box::new(lines)))]);
    let p = make(t, "PrintTextBlock", &[("tlv", Val::Some(Box::new(ptb)))]);
    vec![vec![0x06, 0xd1, 0x06, 0x40, b'H', b'e', b'l', b'l', b'o'], enc(t, "PrintTextBlock", &p)]
}

pub fn classify(t: &Table, apdu: &[u8]) -> Kind {
    if apdu.len() < 3 {
        return Kind::Other;
    }
    match (apdu[0], apdu[1]) {
        (0x06, 0x00) => Kind::Registration,
        (0x0f, 0xa1) => Kind::SystemInfo,
        (0x06, 0x1b) => Kind::SetTerminalId,
        (0x06, 0x93) => Kind::Init,
        (0x06, 0x50) => Kind::EndOfDay,
        (0x06, 0xc0) => Kind::ReadCard,
        (0x06, 0x22) => Kind::Reservation,
        (0x06, 0x23) => match decode(t, &t["PartialReversal"], apdu) {
            Ok((v, _)) if get_u(&v, "receipt_no") == Some(0xffff) => Kind::PendingQuery,
            _ => Kind::PartialReversal,
        },
        (0x06, 0x25) => Kind::PreAuthReversal,
        _ => Kind::Other,
    }
}

// ---------------------------------------------------------------------------------------------
// terminal task

async fn read_apdu(s: &mut DuplexStream) -> io::Result<Vec<u8>> {
    let mut h = [0u8; 3];
    s.read_exact(&mut h).await?;
    let mut v = h.to_vec();
    let len = if h[2] == 0xff {
        let mut e = [0u8; 2];
        s.read_exact(&mut e).await?;
        v.extend(e);
        u16::from_le_bytes(e) as usize
    } else {
        h[2] as usize
    };
    let mut b = vec![0; len];
    s.read_exact(&mut b).await?;
    v.extend(b);
    Ok(v)
}

/// Compute the reply list (position 0 = ack) for a command; updates the ledger.
fn respond(g: &mut Sim, kind: Kind, apdu: &[u8], d: &Directive) -> Vec<Vec<u8>> {
    let t = g.t.clone();
    let mut r: Vec<Vec<u8>> = vec![ACK.to_vec()];
    if kind == Kind::Other {
        return vec![vec![0x84, 0x83, 0x00]];
    }
    let req = decode(&t, &t[kind.layout()], apdu).ok().map(|x| x.0);
    let chatty = matches!(kind, Kind::Init | Kind::EndOfDay | Kind::ReadCard | Kind::Reservation | Kind::PartialReversal | Kind::PreAuthReversal);
    if chatty {
        for _ in 0..g.intermediates {
            r.push(g.intermediate_body.clone().unwrap_or_else(intermediate_packet));
        }
    }
    if matches!(kind, Kind::Init | Kind::EndOfDay | Kind::Reservation | Kind::PartialReversal | Kind::PreAuthReversal) {
        // print lines / text blocks are part of these commands' reply sets
        r.extend(g.chatter.iter().cloned());
    }
    if let Outcome::Abort(c) = d.outcome {
        r.push(abort_packet(c));
        return r;
    }
    if let Outcome::AbortExtended(c, i) = d.outcome {
        let extra = ABORT_EXTRAS[i % ABORT_EXTRAS.len()];
        let mut p = vec![0x06, 0x1e, 1 + extra.len() as u8, c];
        p.extend_from_slice(extra);
        r.push(p);
        return r;
    }
    if let Outcome::AbortWithReceipt(c, rc) = d.outcome {
        if matches!(kind, Kind::PendingQuery | Kind::PartialReversal | Kind::PreAuthReversal | Kind::EndOfDay) {
            let v = make(&t, "PartialReversalAbort", &[("error", Val::U(c as u64)), ("receipt_no", opt_u(Some(rc)))]);
            r.push(enc(&t, "PartialReversalAbort", &v));
        } else {
            r.push(abort_packet(c));
        }
        return r;
    }
    if let Outcome::AbortAfterStatus(c) = d.outcome {
        if matches!(kind, Kind::Reservation | Kind::PartialReversal | Kind::PreAuthReversal | Kind::EndOfDay) {
            // 06 D1: print line "DECLINED"
            r.push(vec![0x06, 0xd1, 0x09, 0x00, b'D', b'E', b'C', b'L', b'I', b'N', b'E', b'D']);
            // the declined attempt has a receipt number of its own (never one that is or will be booked)
            let rc = (g.receipt_seq[g.receipts_issued % g.receipt_seq.len()] + 3332) % 9999 + 1;
            let si = make(&t, "StatusInformation", &[("result_code", opt_u(Some(c as u64))), ("amount", opt_u(Some(1))), ("receipt_no", opt_u(Some(rc))), ("trace_number", opt_u(Some(7)))]);
            r.push(enc(&t, "StatusInformation", &si));
        }
        r.push(abort_packet(c));
        return r;
    }
    match kind {
        Kind::Registration | Kind::SetTerminalId | Kind::Init | Kind::EndOfDay => r.push(completion_packet()),
        Kind::SystemInfo => {
            let serial = if d.outcome == Outcome::WrongSerial { "DEADBEEF".to_string() } else { g.serial.clone() };
            let v = make(&t, "feig.CVendFunctionsEnhancedSystemInformationCompletion", &[("device_id", Val::S(serial)), ("sw_version", Val::S(g.sw_version.clone())), ("terminal_id", Val::S(g.tid.clone())), ("temperature", Val::S(g.temperature.clone()))]);
            r.push(enc(&t, "feig.CVendFunctionsEnhancedSystemInformationCompletion", &v));
        }
        Kind::ReadCard => r.extend(g.card_replies.iter().cloned()),
        Kind::Reservation => {
            let rc = g.receipt_seq[g.receipts_issued % g.receipt_seq.len()];
            g.receipts_issued += 1;
            let (amount, currency, reference) = match &req {
                Some(v) => (
                    get_u(v, "amount").unwrap_or(0),
                    get_u(v, "currency"),
                    get_some(v, "tlv").and_then(|t| get_some(t, "bmp_data")).map(|b| (get_s(b, "bmp_prefix").unwrap_or_default(), get_s(b, "bmp_data").unwrap_or_default())),
                ),
                None => (0, None, None),
            };
            g.ledger.push(PreAuth { receipt: rc, amount, currency, reference });
            for (si, shape) in g.status_script.clone().chars().enumerate() {
                let reported = if g.status_amounts.is_empty() { amount } else { g.status_amounts[si % g.status_amounts.len()] };
                let mut set = vec![("result_code", opt_u(Some(0))), ("amount", opt_u(Some(reported))), ("trace_number", opt_u(Some(g.receipts_issued as u64))), ("currency", opt_u(currency))];
                match shape {
                    'R' if d.outcome != Outcome::NoReceipt => set.push(("receipt_no", opt_u(Some(rc)))),
                    'X' if d.outcome != Outcome::NoReceipt => set.push(("receipt_no", opt_u(Some((rc + 4998) % 9999 + 1)))),
                    _ => {}
                }
                let si = make(&t, "StatusInformation", &set);
                r.push(enc(&t, "StatusInformation", &si));
            }
            r.push(completion_packet());
        }
        Kind::PendingQuery => {
            let pend = g.dangling.or(g.ledger.iter().map(|p| p.receipt).min());
            let v = make(&t, "PartialReversalAbort", &[("error", Val::U(0xb8)), ("receipt_no", opt_u(Some(pend.unwrap_or(0xffff))))]);
            r.push(enc(&t, "PartialReversalAbort", &v));
        }
        Kind::PartialReversal => {
            let rc = req.as_ref().and_then(|v| get_u(v, "receipt_no")).unwrap_or(0);
            let released = req.as_ref().and_then(|v| get_u(v, "amount")).unwrap_or(0);
            match g.ledger.iter().position(|p| p.receipt == rc) {
                None => r.push(abort_packet(0xb5)),
                Some(i) => {
                    let p = g.ledger.remove(i);
                    g.booked.push((rc, p.amount.saturating_sub(released)));
                    if d.outcome == Outcome::NoStatus {
                        // completion only
                    } else if g.reversal_status.is_empty() {
                        let si = make(&t, "StatusInformation", &[("result_code", opt_u(Some(0))), ("amount", opt_u(Some(p.amount.saturating_sub(released)))), ("receipt_no", opt_u(Some(rc)))]);
                        r.push(enc(&t, "StatusInformation", &si));
                    } else {
                        r.extend(g.reversal_status.iter().cloned());
                    }
                    r.push(completion_packet());
                }
            }
        }
        Kind::PreAuthReversal => {
            let rc = req.as_ref().and_then(|v| get_u(v, "receipt_no")).unwrap_or(0);
            if let Some(i) = g.ledger.iter().position(|p| p.receipt == rc) {
                // (a dangling pre-authorisation that happens to carry the same receipt number stays: the reference model
                // in props/c07.rs mirrors exactly this rule)
                g.ledger.remove(i);
                r.push(completion_packet());
            } else if g.dangling == Some(rc) {
                g.dangling = None;
                r.push(completion_packet());
            } else {
                r.push(abort_packet(0xb5));
            }
        }
        Kind::Other => {}
    }
    r
}

pub async fn serve(mut s: DuplexStream, sim: Shared, conn: usize) {
    loop {
        let p = match read_apdu(&mut s).await {
            Ok(p) => p,
            Err(_) => {
                let mut g = sim.lock().unwrap();
                let t = g.now();
                g.log.push(SEv::PeerClosed { conn, t });
                return;
            }
        };
        if p[..] == ACK {
            let mut g = sim.lock().unwrap();
            let t = g.now();
            g.log.push(SEv::Unexpected { conn, t, apdu: p });
            continue;
        }
        let (d, replies) = {
            let mut g = sim.lock().unwrap();
            let kind = classify(&g.t, &p);
            let occ = {
                let e = g.seen.entry(kind).or_insert(0);
                let o = *e;
                *e += 1;
                o
            };
            let d = g.plan.get(&(kind, occ)).or(g.default_plan.get(&kind)).cloned().unwrap_or_default();
            let t = g.now();
            g.log.push(SEv::Rx { conn, t, kind, occ, apdu: p.clone() });
            // a request that is not even acknowledged (fault at position 0) is not processed: the terminal's books stay as they were
            let books = (g.ledger.clone(), g.dangling, g.booked.clone(), g.receipts_issued);
            let r = respond(&mut g, kind, &p, &d);
            if matches!(d.fault, Some((_, 0))) {
                (g.ledger, g.dangling, g.booked, g.receipts_issued) = books;
            }
            (d, r)
        };
        for (i, rep) in replies.iter().enumerate() {
            if let Some((pos, secs)) = d.delay {
                if pos == i {
                    tokio::time::sleep(Duration::from_secs(secs)).await;
                }
            }
            if let Some((pos, ms)) = d.delay_ms {
                if pos == i || pos == 99 || (pos == 98 && i > 0) {
                    tokio::time::sleep(Duration::from_millis(ms)).await;
                }
            }
            if let Some((k, pos)) = d.fault {
                if pos == i {
                    {
                        let mut g = sim.lock().unwrap();
                        let t = g.now();
                        g.log.push(SEv::Fault { conn, t, kind: k, pos });
                    }
                    match k {
                        FaultKind::Close => return,
                        FaultKind::Silence => {}
                        FaultKind::Garbage => {
                            let _ = s.write_all(&[0x47, 0x11, 0x02, 0xde, 0xad]).await;
                        }
                        FaultKind::Nack => {
                            let _ = s.write_all(&[0x84, 0x9a, 0x00]).await;
                        }
                        FaultKind::HeaderThenSilence => {
                            let mut h = rep[..rep.len().min(3)].to_vec();
                            if rep.len() <= 3 {
                                // announce a body that never comes
                                h = vec![rep[0], rep[1], 0x05];
                            }
                            let _ = s.write_all(&h).await;
                        }
                    }
                    // stay silent but keep the connection open until the client drops it
                    let mut sink = [0u8; 64];
                    loop {
                        match s.read(&mut sink).await {
                            Ok(0) | Err(_) => {
                                let mut g = sim.lock().unwrap();
                                let t = g.now();
                                g.log.push(SEv::PeerClosed { conn, t });
                                return;
                            }
                            Ok(_) => {}
                        }
                    }
                }
            }
            if s.write_all(rep).await.is_err() {
                return;
            }
            {
                let mut g = sim.lock().unwrap();
                let t = g.now();
                g.log.push(SEv::Tx { conn, t, apdu: rep.clone() });
            }
            if i > 0 {
                // a terminal waits for the acknowledgement of each reply before sending the next
                match read_apdu(&mut s).await {
                    Ok(a) if a[..] == ACK => {
                        let mut g = sim.lock().unwrap();
                        let t = g.now();
                        g.log.push(SEv::RxAck { conn, t });
                    }
                    Ok(a) => {
                        let mut g = sim.lock().unwrap();
                        let t = g.now();
                        g.log.push(SEv::Unexpected { conn, t, apdu: a });
                    }
                    Err(_) => {
                        let mut g = sim.lock().unwrap();
                        let t = g.now();
                        g.log.push(SEv::PeerClosed { conn, t });
                        return;
                    }
                }
            }
        }
        if let Some(bytes) = &d.stray_after {
            let _ = s.write_all(bytes).await;
            {
                let mut g = sim.lock().unwrap();
                let t = g.now();
                g.log.push(SEv::Fault { conn, t, kind: FaultKind::Silence, pos: 98 });
            }
            let mut sink = [0u8; 64];
            loop {
                match s.read(&mut sink).await {
                    Ok(0) | Err(_) => {
                        let mut g = sim.lock().unwrap();
                        let t = g.now();
                        g.log.push(SEv::PeerClosed { conn, t });
                        return;
                    }
                    Ok(_) => {}
                }
            }
        }
        // `Close` at a position behind the last packet: the exchange completes and the terminal then drops the idle connection
        if let Some((FaultKind::Close, pos)) = d.fault {
            if pos >= replies.len() {
                let mut g = sim.lock().unwrap();
                let t = g.now();
                g.log.push(SEv::Fault { conn, t, kind: FaultKind::Close, pos });
                return;
            }
        }
    }
}

// ---------------------------------------------------------------------------------------------
// client-side logging stream

pub struct ClientConn {
    inner: DuplexStream,
    conn: usize,
    clog: Arc<Mutex<Vec<CEv>>>,
    t0: tokio::time::Instant,
}
impl ClientConn {
    fn now(&self) -> f64 {
        tokio::time::Instant::now().duration_since(self.t0).as_secs_f64()
    }
}
impl AsyncRead for ClientConn {
    fn poll_read(mut self: Pin<&mut Self>, cx: &mut Context<'_>, buf: &mut ReadBuf<'_>) -> Poll<io::Result<()>> {
        let before = buf.filled().len();
        let r = Pin::new(&mut self.inner).poll_read(cx, buf);
        if let Poll::Ready(Ok(())) = &r {
            let got = buf.filled()[before..].to_vec();
            let (t, conn) = (self.now(), self.conn);
            let mut l = self.clog.lock().unwrap();
            if got.is_empty() && buf.remaining() > 0 {
                l.push(CEv::ReadEof { conn, t });
            } else if !got.is_empty() {
                l.push(CEv::Read { conn, t, bytes: got });
            }
        }
        r
    }
}
impl AsyncWrite for ClientConn {
    fn poll_write(mut self: Pin<&mut Self>, cx: &mut Context<'_>, buf: &[u8]) -> Poll<io::Result<usize>> {
        let r = Pin::new(&mut self.inner).poll_write(cx, buf);
        if let Poll::Ready(Ok(n)) = &r {
            let (t, conn) = (self.now(), self.conn);
            self.clog.lock().unwrap().push(CEv::Write { conn, t, bytes: buf[..*n].to_vec() });
        }
        r
    }
    fn poll_flush(mut self: Pin<&mut Self>, cx: &mut Context<'_>) -> Poll<io::Result<()>> {
        Pin::new(&mut self.inner).poll_flush(cx)
    }
    fn poll_shutdown(mut self: Pin<&mut Self>, cx: &mut Context<'_>) -> Poll<io::Result<()>> {
        Pin::new(&mut self.inner).poll_shutdown(cx)
    }
}
impl Drop for ClientConn {
    fn drop(&mut self) {
        let (t, conn) = (self.now(), self.conn);
        self.clog.lock().unwrap().push(CEv::Drop { conn, t });
    }
}

// ---------------------------------------------------------------------------------------------
// running the real client

pub struct World {
    pub sim: Shared,
    pub clog: Arc<Mutex<Vec<CEv>>>,
}
impl World {
    pub fn new(sim: Sim) -> Self {
        World { sim: Arc::new(Mutex::new(sim)), clog: Arc::new(Mutex::new(vec![])) }
    }
    /// Build a fresh paused-clock runtime on this thread, install the connector and run `body`.
    pub fn run<T>(&self, body: impl Future<Output = T>) -> T {
        let rt = tokio::runtime::Builder::new_current_thread().enable_time().start_paused(true).build().expect("runtime");
        let sim = self.sim.clone();
        let clog = self.clog.clone();
        let out = rt.block_on(async {
            let t0 = tokio::time::Instant::now();
            sim.lock().unwrap().t0 = Some(t0);
            let (s2, c2) = (sim.clone(), clog.clone());
            set_connector(Some(Arc::new(move |_addr| {
                let (sim, clog) = (s2.clone(), c2.clone());
                Box::pin(async move {
                    let (behaviour, attempt) = {
                        let mut g = sim.lock().unwrap();
                        let a = g.connect_attempts;
                        g.connect_attempts += 1;
                        // a client that reconnects thousands of times without the clock advancing is spinning: from here on
                        // connection attempts never complete, so virtual time runs into the caller's watchdog and the call is
                        // judged "does not return" instead of the harness spinning along in real time
                        let b = if a > 5_000 { ConnectBehaviour::Stall } else { g.connect_plan.get(a).copied().unwrap_or(g.connect_default) };
                        (b, a)
                    };
                    clog.lock().unwrap().push(CEv::ConnectAttempt { conn: attempt, t: tokio::time::Instant::now().duration_since(t0).as_secs_f64() });
                    match behaviour {
                        ConnectBehaviour::Refuse => Err(io::Error::new(io::ErrorKind::ConnectionRefused, "refused")),
                        ConnectBehaviour::Stall => std::future::pending().await,
                        ConnectBehaviour::Accept => {
                            let id = {
                                let mut g = sim.lock().unwrap();
                                g.conns += 1;
                                g.conns
                            };
                            clog.lock().unwrap().push(CEv::Open { conn: id, t: tokio::time::Instant::now().duration_since(t0).as_secs_f64() });
                            let (a, b) = tokio::io::duplex(1 << 17);
                            tokio::spawn(serve(b, sim.clone(), id));
                            Ok(MemStream(Box::new(ClientConn { inner: a, conn: id, clog: clog.clone(), t0 })))
                        }
                    }
                })
            })));
            body.await
        });
        set_connector(None);
        drop(rt);
        out
    }
    pub fn now(&self) -> f64 {
        self.sim.lock().unwrap().now()
    }
}

#[derive(Clone, Debug, PartialEq)]
pub enum ErrClass {
    ActiveTransaction(String),
    UnknownToken(String),
    NoCardPresented,
    NeedsPinEntry,
    UnexpectedPacket,
    Aborted(u8),
    Incomplete,
    OtherZvt(String),
    Text(String),
}
pub fn classify_err(e: &anyhow::Error) -> ErrClass {
    use zvt_feig_terminal::feig::Error as FE;
    if let Some(fe) = e.downcast_ref::<FE>() {
        return match fe {
            FE::ActiveTransaction(s) => ErrClass::ActiveTransaction(s.clone()),
            FE::UnknownToken(s) => ErrClass::UnknownToken(s.clone()),
            FE::NoCardPresented => ErrClass::NoCardPresented,
            FE::NeedsPinEntry => ErrClass::NeedsPinEntry,
            FE::UnexpectedPacket => ErrClass::UnexpectedPacket,
        };
    }
    if let Some(ze) = e.downcast_ref::<zvt::ZVTError>() {
        return match ze {
            zvt::ZVTError::Aborted(c) => ErrClass::Aborted(*c),
            zvt::ZVTError::IncompleteData => ErrClass::Incomplete,
            other => ErrClass::OtherZvt(format!("{other:?}")),
        };
    }
    ErrClass::Text(format!("{e:#}"))
}

#[derive(Clone, Debug, PartialEq)]
pub enum Ret {
    Unit,
    Card(Option<String>),
    Summary { terminal_id: Option<String>, amount: Option<u64>, trace_number: Option<u64>, date: Option<String>, time: Option<String> },
}
#[derive(Clone, Debug)]
pub struct CallOutcome {
    /// None = the call did not return within one virtual day
    pub result: Option<Result<Ret, ErrClass>>,
    pub error_text: Option<String>,
    pub panicked: Option<String>,
    /// virtual seconds the call took
    pub elapsed: f64,
    /// indices into the terminal's request log / the client log at call start and end
    pub req_from: usize,
    pub req_to: usize,
    pub clog_from: usize,
    pub clog_to: usize,
}
#[derive(Clone, Debug, PartialEq, serde::Serialize, serde::Deserialize)]
pub enum Op {
    Configure,
    ReadCard,
    Begin(String),
    Commit(String, u64),
    Cancel(String),
    /// no call: the caller lets this many milliseconds pass
    Idle(u64),
}
pub const DAY: Duration = Duration::from_secs(86_400);

pub fn default_config() -> Config {
    Config { terminal_id: "52523535".into(), feig_serial: "17fd1e3c".into(), feig_config: FeigConfig { password: 123456, ..FeigConfig::default() }, ..Config::default() }
}

/// Run one public operation under the one-virtual-day watchdog, catching panics.
pub async fn call(w: &World, feig: &mut Feig, op: &Op) -> CallOutcome {
    use futures::FutureExt;
    let (req_from, clog_from) = (w.sim.lock().unwrap().n_requests(), w.clog.lock().unwrap().len());
    let start = tokio::time::Instant::now();
    let fut = async {
        match op {
            Op::Idle(ms) => {
                tokio::time::sleep(Duration::from_millis(*ms)).await;
                Ok(Ret::Unit)
            }
            Op::Configure => feig.configure().await.map(|_| Ret::Unit),
            Op::ReadCard => feig.read_card().await.map(|c| match c {
                CardInfo::Bank => Ret::Card(None),
                CardInfo::MembershipCard(s) => Ret::Card(Some(s)),
            }),
            Op::Begin(t) => feig.begin_transaction(t).await.map(|_| Ret::Unit),
            Op::Cancel(t) => feig.cancel_transaction(t).await.map(|_| Ret::Unit),
            Op::Commit(t, a) => feig.commit_transaction(t, *a).await.map(|s| Ret::Summary { terminal_id: s.terminal_id, amount: s.amount, trace_number: s.trace_number, date: s.date, time: s.time }),
        }
    };
    let guarded = std::panic::AssertUnwindSafe(fut).catch_unwind();
    let r = tokio::time::timeout(DAY, guarded).await;
    let elapsed = tokio::time::Instant::now().duration_since(start).as_secs_f64();
    let (req_to, clog_to) = (w.sim.lock().unwrap().n_requests(), w.clog.lock().unwrap().len());
    let mut out = CallOutcome { result: None, error_text: None, panicked: None, elapsed, req_from, req_to, clog_from, clog_to };
    match r {
        Err(_) => {}
        Ok(Err(p)) => {
            out.panicked = Some(if let Some(s) = p.downcast_ref::<&str>() { s.to_string() } else if let Some(s) = p.downcast_ref::<String>() { s.clone() } else { "panic".into() });
        }
        Ok(Ok(Ok(v))) => out.result = Some(Ok(v)),
        Ok(Ok(Err(e))) => {
            out.error_text = Some(format!("{e:#}"));
            out.result = Some(Err(classify_err(&e)));
        }
    }
    out
}

/// `Feig::new` under the watchdog. Returns None if it did not return / panicked.
pub async fn new_feig(cfg: Config) -> (Option<Feig>, f64, Option<String>) {
    use futures::FutureExt;
    let start = tokio::time::Instant::now();
    let r = tokio::time::timeout(DAY, std::panic::AssertUnwindSafe(Feig::new(cfg)).catch_unwind()).await;
    let elapsed = tokio::time::Instant::now().duration_since(start).as_secs_f64();
    match r {
        Err(_) => (None, elapsed, None),
        Ok(Err(_)) => (None, elapsed, Some("panic".into())),
        Ok(Ok(Ok(f))) => (Some(f), elapsed, None),
        Ok(Ok(Err(e))) => (None, elapsed, Some(format!("{e:#}"))),
    }
}

/// Requests of a call decoded with the reference codec: (kind, value, connection).
pub fn decoded_requests(w: &World, from: usize, to: usize) -> Vec<(Kind, Val, usize, Vec<u8>)> {
    let g = w.sim.lock().unwrap();
    let reqs = g.requests();
    reqs[from.min(reqs.len())..to.min(reqs.len())]
        .iter()
        .map(|(k, _, conn, apdu)| {
            let v = decode(&g.t, &g.t[k.layout()], apdu).map(|x| x.0).unwrap_or(Val::None);
            (*k, v, *conn, apdu.clone())
        })
        .collect()
}

pub fn ledger_receipts(w: &World) -> BTreeMap<u64, usize> {
    let g = w.sim.lock().unwrap();
    let mut m = BTreeMap::new();
    for p in &g.ledger {
        *m.entry(p.receipt).or_insert(0) += 1;
    }
    m
}
