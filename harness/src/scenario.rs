//! A client-level scenario: configuration, fault-free set-up calls, a plan of terminal directives relative to
//! the start of the observed phase, and the observed calls. Shared by C07–C10, C18–C20.
use crate::sim::*;
use serde::{Deserialize, Serialize};
use std::collections::HashMap;
use zvt_feig_terminal::config::{Config, FeigConfig};

#[derive(Serialize, Deserialize, Clone, Debug, PartialEq)]
pub struct CfgSpec {
    pub terminal_id: String,
    pub serial: String,
    pub password: u64,
    pub currency: u64,
    pub amount: u64,
    pub rct: u8,
    pub max: usize,
}
impl Default for CfgSpec {
    fn default() -> Self {
        CfgSpec { terminal_id: "52523535".into(), serial: "17fd1e3c".into(), password: 123456, currency: 978, amount: 2500, rct: 15, max: 1 }
    }
}
impl CfgSpec {
    pub fn config(&self) -> Config {
        Config {
            terminal_id: self.terminal_id.clone(),
            feig_serial: self.serial.clone(),
            ip_address: std::net::Ipv4Addr::new(10, 0, 0, 1),
            feig_config: FeigConfig { currency: self.currency as usize, pre_authorization_amount: self.amount as usize, read_card_timeout: self.rct, password: self.password as usize },
            transactions_max_num: self.max,
        }
    }
}

#[derive(Serialize, Deserialize, Clone, Debug, PartialEq)]
pub struct PlanEntry {
    pub kind: Kind,
    /// occurrence counted from the start of the observed phase (`from_start` = from the very first request); None = every occurrence
    pub occ: Option<usize>,
    pub from_start: bool,
    pub directive: Directive,
}

#[derive(Serialize, Deserialize, Clone, Debug, PartialEq, Default)]
pub struct SimSpec {
    pub intermediates: usize,
    pub receipts: Vec<u64>,
    pub dangling: Option<u64>,
    /// hex of the reply packets for ReadCard
    pub card_replies: Vec<String>,
    /// hex of the status-information packets of a PartialReversal
    pub reversal_status: Vec<String>,
    pub chatter: Vec<String>,
    pub terminal_tid: Option<String>,
    pub terminal_serial: Option<String>,
    /// hex of the intermediate status packet (None: `04 ff 02 17 00`)
    #[serde(default)]
    pub intermediate_body: Option<String>,
    /// see Sim::status_script (None: "R")
    #[serde(default)]
    pub status_script: Option<String>,
    /// see Sim::status_amounts
    #[serde(default)]
    pub status_amounts: Vec<u64>,
}

#[derive(Serialize, Deserialize, Clone, Debug, PartialEq)]
pub struct Scenario {
    pub cfg: CfgSpec,
    pub sim: SimSpec,
    /// observe `Feig::new` itself (plan applies from the first request; `setup` must be empty)
    pub observe_new: bool,
    pub setup: Vec<Op>,
    pub plan: Vec<PlanEntry>,
    /// behaviour of connection attempts counted from the start of the observed phase
    pub connect_plan: Vec<ConnectBehaviour>,
    pub connect_default: ConnectBehaviour,
    pub ops: Vec<Op>,
}
impl Default for Scenario {
    fn default() -> Self {
        Scenario { cfg: CfgSpec::default(), sim: SimSpec::default(), observe_new: false, setup: vec![], plan: vec![], connect_plan: vec![], connect_default: ConnectBehaviour::Accept, ops: vec![] }
    }
}

pub struct Trace {
    pub world: World,
    /// Feig::new: returned?, virtual seconds, requests seen during it
    pub new_returned: bool,
    pub new_elapsed: f64,
    pub new_reqs: (usize, usize),
    pub new_clog: (usize, usize),
    pub setup: Vec<CallOutcome>,
    pub calls: Vec<CallOutcome>,
    /// connections opened before the observed phase
    pub conns_before: usize,
}

fn install(sim: &mut Sim, plan: &[PlanEntry], connect_plan: &[ConnectBehaviour], connect_default: ConnectBehaviour) {
    let seen: HashMap<Kind, usize> = sim.seen.clone();
    for p in plan {
        match p.occ {
            None => {
                sim.default_plan.insert(p.kind, p.directive.clone());
            }
            Some(o) => {
                let base = if p.from_start { 0 } else { *seen.get(&p.kind).unwrap_or(&0) };
                sim.plan.insert((p.kind, base + o), p.directive.clone());
            }
        }
    }
    let mut cp = vec![ConnectBehaviour::Accept; sim.connect_attempts];
    cp.extend_from_slice(connect_plan);
    sim.connect_plan = cp;
    sim.connect_default = connect_default;
}

pub fn run_scenario(sc: &Scenario) -> Trace {
    let t = crate::table();
    let mut sim = Sim::new(t);
    sim.intermediates = sc.sim.intermediates;
    if !sc.sim.receipts.is_empty() {
        sim.receipt_seq = sc.sim.receipts.clone();
    }
    if sc.observe_new {
        sim.dangling = sc.sim.dangling;
    }
    sim.intermediate_body = sc.sim.intermediate_body.as_ref().map(|h| crate::engine::unhex(h));
    if let Some(s) = &sc.sim.status_script {
        sim.status_script = s.clone();
    }
    sim.status_amounts = sc.sim.status_amounts.clone();
    sim.card_replies = sc.sim.card_replies.iter().map(|h| crate::engine::unhex(h)).collect();
    sim.reversal_status = sc.sim.reversal_status.iter().map(|h| crate::engine::unhex(h)).collect();
    sim.chatter = sc.sim.chatter.iter().map(|h| crate::engine::unhex(h)).collect();
    if let Some(t) = &sc.sim.terminal_tid {
        sim.tid = t.clone();
    }
    if let Some(s) = &sc.sim.terminal_serial {
        sim.serial = s.clone();
    }
    if sc.observe_new {
        install(&mut sim, &sc.plan, &sc.connect_plan, sc.connect_default);
    }
    let world = World::new(sim);
    let cfg = sc.cfg.config();
    let (new_returned, new_elapsed, new_reqs, new_clog, setup, calls, conns_before) = world.run(async {
        let (r0, c0) = (world.sim.lock().unwrap().n_requests(), world.clog.lock().unwrap().len());
        let (feig, el, _err) = new_feig(cfg).await;
        let (r1, c1) = (world.sim.lock().unwrap().n_requests(), world.clog.lock().unwrap().len());
        let Some(mut feig) = feig else { return (false, el, (r0, r1), (c0, c1), vec![], vec![], 0) };
        let mut setup = vec![];
        for op in &sc.setup {
            setup.push(call(&world, &mut feig, op).await);
        }
        let conns_before = world.sim.lock().unwrap().conns;
        if !sc.observe_new {
            let mut g = world.sim.lock().unwrap();
            // a dangling pre-authorisation appears after start-up (Feig::new's own clean-up would remove an earlier one)
            g.dangling = sc.sim.dangling;
            install(&mut g, &sc.plan, &sc.connect_plan, sc.connect_default);
        }
        let mut calls = vec![];
        for op in &sc.ops {
            calls.push(call(&world, &mut feig, op).await);
        }
        drop(feig);
        (true, el, (r0, r1), (c0, c1), setup, calls, conns_before)
    });
    Trace { world, new_returned, new_elapsed, new_reqs, new_clog, setup, calls, conns_before }
}

/// Transcript of the terminal's side for requests [from, to): per request (kind, occurrence from phase start, packets sent incl. ack).
pub fn transcript(tr: &Trace, from: usize, to: usize) -> Vec<(Kind, usize, usize)> {
    let g = tr.world.sim.lock().unwrap();
    let mut out: Vec<(Kind, usize, usize)> = vec![];
    let mut idx = 0usize;
    let mut base: HashMap<Kind, usize> = HashMap::new();
    let mut cur: Option<usize> = None;
    for e in &g.log {
        match e {
            SEv::Rx { kind, occ, .. } => {
                if idx >= from && idx < to {
                    let b = *base.entry(*kind).or_insert(*occ);
                    out.push((*kind, occ - b, 0));
                    cur = Some(out.len() - 1);
                } else {
                    cur = None;
                }
                idx += 1;
            }
            SEv::Tx { .. } => {
                if let Some(c) = cur {
                    out[c].2 += 1;
                }
            }
            _ => {}
        }
    }
    out
}
