use zvtverif::engine::*;

#[global_allocator]
static ALLOC: zvtverif::alloc::Counting = zvtverif::alloc::Counting;

fn usage() -> ! {
    eprintln!("usage: zvtverif <C01..C20> <quick|thorough> | zvtverif <ID> --replay <file>");
    std::process::exit(2)
}

fn main() {
    if std::env::var("VERIF_DEBUG_PANIC").is_err() {
        silence_panics();
    }
    let args: Vec<String> = std::env::args().skip(1).collect();
    if args.len() < 2 {
        usage();
    }
    let id = args[0].to_uppercase();
    if id == "C02" && args[1].starts_with("--") && args[1] != "--replay" {
        std::process::exit(zvtverif::props::c02::twin_main(&args[1..]));
    }
    if args[1] == "--replay" {
        let Some(path) = args.get(2) else { usage() };
        let Some((check, input)) = load_replay(std::path::Path::new(path)) else {
            eprintln!("cannot read replay file {path}");
            std::process::exit(2)
        };
        let r = zvtverif::dispatch().into_iter().find(|d| d.0 == id).and_then(|d| (d.2)(&check, &input));
        match r {
            None => {
                eprintln!("replay: unknown property/check {id}/{check}");
                std::process::exit(2)
            }
            Some(Ok(())) => {
                println!("REPLAY property={id} check={check}: holds");
                std::process::exit(0)
            }
            Some(Err(v)) => {
                println!("VIOLATION property={id} replay={path}");
                println!("  sig: {}", v.sig);
                println!("  {}", v.detail);
                std::process::exit(1)
            }
        }
    }
    let tier = match args[1].as_str() {
        "quick" => Tier::Quick,
        "thorough" => Tier::Thorough,
        _ => usage(),
    };
    let code = match zvtverif::dispatch().into_iter().find(|d| d.0 == id) {
        Some(d) => (d.1)(tier),
        None => {
            eprintln!("unknown property {id}");
            2
        }
    };
    std::process::exit(code)
}
