//! Registry of the 17 `Sequence` impls (+ the WriteFile upload stream) and a driver that runs one of them
//! against the scripted peer item by item. DESIGN.md Appendix B is the independent table of commands,
//! reply sets and final packets.
use crate::peer::*;
use futures::executor::block_on;
use futures::StreamExt;
use std::io;
use std::pin::Pin;
use std::sync::{Arc, Mutex};
use std::task::{Context, Poll};
use tokio::io::{AsyncRead, AsyncWrite, ReadBuf};
use zvt::io::PacketTransport;
use zvt::sequences::Sequence;
use zvt::ZvtSerializer;

#[derive(Clone)]
pub struct SharedPeer(pub Arc<Mutex<Peer>>);
impl SharedPeer {
    pub fn new(p: Peer) -> Self {
        SharedPeer(Arc::new(Mutex::new(p)))
    }
    pub fn with<T>(&self, f: impl FnOnce(&mut Peer) -> T) -> T {
        f(&mut self.0.lock().unwrap())
    }
}
impl AsyncRead for SharedPeer {
    fn poll_read(self: Pin<&mut Self>, cx: &mut Context<'_>, buf: &mut ReadBuf<'_>) -> Poll<io::Result<()>> {
        let mut g = self.0.lock().unwrap();
        Pin::new(&mut *g).poll_read(cx, buf)
    }
}
impl AsyncWrite for SharedPeer {
    fn poll_write(self: Pin<&mut Self>, cx: &mut Context<'_>, buf: &[u8]) -> Poll<io::Result<usize>> {
        let mut g = self.0.lock().unwrap();
        Pin::new(&mut *g).poll_write(cx, buf)
    }
    fn poll_flush(self: Pin<&mut Self>, _: &mut Context<'_>) -> Poll<io::Result<()>> {
        Poll::Ready(Ok(()))
    }
    fn poll_shutdown(self: Pin<&mut Self>, _: &mut Context<'_>) -> Poll<io::Result<()>> {
        Poll::Ready(Ok(()))
    }
}

/// Snapshot of the peer taken when an item is handed to the caller.
#[derive(Clone, Debug)]
pub struct Snap {
    /// Ok(Debug of the item) / Err(error text) / None = stream ended
    pub item: Option<Result<String, String>>,
    pub delivered: usize,
    pub client_apdus: usize,
    pub log_len: usize,
}
pub struct SeqRun {
    pub snaps: Vec<Snap>,
    pub peer: SharedPeer,
    /// the command could not be decoded into the sequence's input type (harness/generator problem, not a verdict)
    pub bad_command: Option<String>,
}

fn drive<S, T>(mut s: S, peer: &SharedPeer, max_items: usize) -> Vec<Snap>
where
    S: futures::Stream<Item = anyhow::Result<T>> + Unpin,
    T: std::fmt::Debug,
{
    let mut snaps = vec![];
    let mut nones = 0;
    for _ in 0..max_items {
        let item = block_on(s.next());
        let item = item.map(|r| r.map(|v| format!("{v:?}")).map_err(|e| format!("{e:#}")));
        let is_none = item.is_none();
        let (delivered, client_apdus, log_len) = peer.with(|p| (p.delivered(), p.client_apdus.len(), p.log.len()));
        snaps.push(Snap { item, delivered, client_apdus, log_len });
        if is_none {
            nones += 1;
            if nones == 2 {
                break;
            }
        }
    }
    snaps
}

fn run_seq<S>(cmd: &[u8], peer: Peer, max_items: usize) -> SeqRun
where
    S: Sequence,
    S::Input: ZvtSerializer + Send + Sync,
    S::Output: std::fmt::Debug,
    zvt::encoding::Default: zvt::encoding::Encoding<S::Input>,
{
    let shared = SharedPeer::new(peer);
    let input = match <S::Input as ZvtSerializer>::zvt_deserialize(cmd) {
        Ok((v, rest)) if rest.is_empty() => v,
        Ok(_) => return SeqRun { snaps: vec![], peer: shared, bad_command: Some("command bytes left over".into()) },
        Err(e) => return SeqRun { snaps: vec![], peer: shared, bad_command: Some(format!("{e:?}")) },
    };
    let mut tr = PacketTransport { source: shared.clone() };
    let snaps = {
        let s = <S as Sequence>::into_stream(&input, &mut tr);
        drive(s, &shared, max_items)
    };
    SeqRun { snaps, peer: shared, bad_command: None }
}

pub fn run_write_file(dir: std::path::PathBuf, password: usize, block: u32, peer: Peer, max_items: usize) -> SeqRun {
    let shared = SharedPeer::new(peer);
    let mut tr = PacketTransport { source: shared.clone() };
    let snaps = {
        let s = zvt::feig::sequences::WriteFile::into_stream(dir, password, block, &mut tr);
        drive(s, &shared, max_items)
    };
    SeqRun { snaps, peer: shared, bad_command: None }
}

pub struct SeqEntry {
    pub name: &'static str,
    /// layout-table name of the command type
    pub cmd: &'static str,
    /// reply enum (registry::enum_table name)
    pub replies: &'static str,
    /// control fields that end the exchange; empty = "single" (the one reply read is final whatever it is)
    pub finals: &'static [(u8, u8)],
    pub run: fn(&[u8], Peer, usize) -> SeqRun,
}

const CD_AB: &[(u8, u8)] = &[(0x06, 0x0f), (0x06, 0x1e)];
const CD: &[(u8, u8)] = &[(0x06, 0x0f)];

pub fn sequences() -> Vec<SeqEntry> {
    use zvt::feig::sequences as fs;
    use zvt::sequences as s;
    vec![
        SeqEntry { name: "Registration", cmd: "Registration", replies: "RegistrationResponse", finals: &[], run: run_seq::<s::Registration> },
        SeqEntry { name: "ReadCard", cmd: "ReadCard", replies: "ReadCardResponse", finals: &[(0x04, 0x0f), (0x06, 0x1e)], run: run_seq::<s::ReadCard> },
        SeqEntry { name: "Initialization", cmd: "Initialization", replies: "InitializationResponse", finals: CD_AB, run: run_seq::<s::Initialization> },
        SeqEntry { name: "SetTerminalId", cmd: "SetTerminalId", replies: "SetTerminalIdResponse", finals: &[], run: run_seq::<s::SetTerminalId> },
        SeqEntry { name: "ResetTerminal", cmd: "ResetTerminal", replies: "ResetTerminalResponse", finals: &[], run: run_seq::<s::ResetTerminal> },
        SeqEntry { name: "Diagnosis", cmd: "Diagnosis", replies: "DiagnosisResponse", finals: CD_AB, run: run_seq::<s::Diagnosis> },
        SeqEntry { name: "EndOfDay", cmd: "EndOfDay", replies: "EndOfDayResponse", finals: CD_AB, run: run_seq::<s::EndOfDay> },
        SeqEntry { name: "Authorization", cmd: "Authorization", replies: "AuthorizationResponse", finals: CD_AB, run: run_seq::<s::Authorization> },
        SeqEntry { name: "Reservation", cmd: "Reservation", replies: "AuthorizationResponse", finals: CD_AB, run: run_seq::<s::Reservation> },
        SeqEntry { name: "PartialReversal", cmd: "PartialReversal", replies: "PartialReversalResponse", finals: CD_AB, run: run_seq::<s::PartialReversal> },
        SeqEntry { name: "PreAuthReversal", cmd: "PreAuthReversal", replies: "PartialReversalResponse", finals: CD_AB, run: run_seq::<s::PreAuthReversal> },
        SeqEntry { name: "PrintSystemConfiguration", cmd: "PrintSystemConfiguration", replies: "PrintSystemConfigurationResponse", finals: CD, run: run_seq::<s::PrintSystemConfiguration> },
        SeqEntry { name: "SelectLanguage", cmd: "SelectLanguage", replies: "SelectLanguageResponse", finals: &[], run: run_seq::<s::SelectLanguage> },
        SeqEntry { name: "StatusEnquiry", cmd: "StatusEnquiry", replies: "StatusEnquiryResponse", finals: CD, run: run_seq::<s::StatusEnquiry> },
        SeqEntry { name: "feig.GetSystemInfo", cmd: "feig.CVendFunctions", replies: "feig.GetSystemInfoResponse", finals: &[], run: run_seq::<fs::GetSystemInfo> },
        SeqEntry { name: "feig.FactoryReset", cmd: "feig.CVendFunctions", replies: "feig.FactoryResetResponse", finals: &[], run: run_seq::<fs::FactoryReset> },
        SeqEntry { name: "feig.ChangeHostConfiguration", cmd: "feig.ChangeConfiguration", replies: "feig.ChangeHostConfigurationResponse", finals: &[], run: run_seq::<fs::ChangeHostConfiguration> },
    ]
}
