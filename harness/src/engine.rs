//! Engine: seeds, shards, case accounting, evidence, replay files, known findings, exit codes.
//!
//! Every run is a pure function of /repo's tree, the tier and VERIF_SEED. Random cases come only from
//! proptest `TestRunner`s seeded from `splitmix(seed, property, shard)`; shards are merged in shard order.
use proptest::strategy::{Strategy, ValueTree};
use proptest::test_runner::{Config, RngAlgorithm, TestCaseError, TestError, TestRng, TestRunner};
use rayon::prelude::*;
use serde_json::{json, Value};
use std::cell::{Cell, RefCell};
use std::collections::{BTreeMap, HashSet};
use std::path::{Path, PathBuf};
use std::time::Instant;

#[derive(Clone, Copy, Debug, PartialEq, Eq)]
pub enum Tier {
    Quick,
    Thorough,
}
impl Tier {
    pub fn name(self) -> &'static str {
        match self {
            Tier::Quick => "quick",
            Tier::Thorough => "thorough",
        }
    }
    /// pick(quick, thorough)
    pub fn pick<T>(self, q: T, t: T) -> T {
        match self {
            Tier::Quick => q,
            Tier::Thorough => t,
        }
    }
}

pub fn verif_root() -> PathBuf {
    PathBuf::from(std::env::var("VERIF_ROOT").unwrap_or_else(|_| "/verif".to_string()))
}

pub fn fnv(bytes: &[u8]) -> u64 {
    let mut h: u64 = 0xcbf29ce484222325;
    for b in bytes {
        h ^= *b as u64;
        h = h.wrapping_mul(0x100000001b3);
    }
    h
}
pub fn fnv_str(s: &str) -> u64 {
    fnv(s.as_bytes())
}
pub fn splitmix(mut x: u64) -> u64 {
    x = x.wrapping_add(0x9e3779b97f4a7c15);
    let mut z = x;
    z = (z ^ (z >> 30)).wrapping_mul(0xbf58476d1ce4e5b9);
    z = (z ^ (z >> 27)).wrapping_mul(0x94d049bb133111eb);
    z ^ (z >> 31)
}
pub fn shard_seed(seed: u64, prop: &str, part: &str, shard: u64) -> u64 {
    splitmix(splitmix(seed ^ fnv_str(prop)) ^ splitmix(fnv_str(part)) ^ splitmix(shard.wrapping_mul(0x2545F4914F6CDD1D)))
}
pub fn hex(b: &[u8]) -> String {
    let mut s = String::with_capacity(b.len() * 2);
    for x in b {
        s.push_str(&format!("{x:02x}"));
    }
    s
}
pub fn unhex(s: &str) -> Vec<u8> {
    (0..s.len() / 2).map(|i| u8::from_str_radix(&s[2 * i..2 * i + 2], 16).unwrap()).collect()
}
pub fn clip(s: &str, n: usize) -> String {
    if s.chars().count() <= n {
        s.to_string()
    } else {
        let mut o: String = s.chars().take(n).collect();
        o.push('…');
        o
    }
}

/// A property violation found by a check.
#[derive(Clone, Debug)]
pub struct Violation {
    /// name of the sub-check (used by --replay to dispatch)
    pub check: String,
    /// stable signature naming the root cause as precisely as the check can
    pub sig: String,
    /// human-readable: expected vs. actual
    pub detail: String,
    /// the (shrunk) input, sufficient for --replay
    pub input: Value,
}
impl Violation {
    pub fn new(check: &str, sig: impl Into<String>, detail: impl Into<String>, input: Value) -> Self {
        Violation { check: check.to_string(), sig: sig.into(), detail: detail.into(), input }
    }
}
pub type CheckResult = Result<(), Violation>;

/// Case accounting for one run (or one shard of it).
#[derive(Default)]
pub struct Stats {
    pub evaluations: u64,
    pub nontrivial: HashSet<u64>,
    pub classes: BTreeMap<String, u64>,
    pub samples: Vec<Value>,
    pub sample_cap: usize,
    pub known: BTreeMap<String, u64>,
    pub excluded: u64,
    pub violations: Vec<Violation>,
    pub notes: Vec<String>,
    pub exhaustive_parts: Vec<String>,
    /// cases that are distinct by construction (each tuple of an enumeration is visited exactly once) and non-trivial
    pub distinct_enumerated: u64,
}
impl Stats {
    pub fn new() -> Self {
        Stats { sample_cap: 6, ..Default::default() }
    }
    /// Count one executed case. `hash` identifies the case; it is added to the distinct-nontrivial set iff `nontrivial`.
    pub fn case(&mut self, nontrivial: bool, hash: u64) {
        self.evaluations += 1;
        if nontrivial {
            self.nontrivial.insert(hash);
        }
    }
    /// Count `n` executed cases of an enumeration of which `nontrivial` are non-trivial; distinct by construction.
    pub fn enumerated(&mut self, n: u64, nontrivial: u64) {
        self.evaluations += n;
        self.distinct_enumerated += nontrivial;
    }
    pub fn class(&mut self, name: &str) {
        *self.classes.entry(name.to_string()).or_insert(0) += 1;
    }
    pub fn class_n(&mut self, name: &str, n: u64) {
        *self.classes.entry(name.to_string()).or_insert(0) += n;
    }
    pub fn sample(&mut self, f: impl FnOnce() -> Value) {
        if self.samples.len() < self.sample_cap {
            self.samples.push(f());
        }
    }
    pub fn merge(&mut self, o: Stats) {
        self.evaluations += o.evaluations;
        self.nontrivial.extend(o.nontrivial);
        for (k, v) in o.classes {
            *self.classes.entry(k).or_insert(0) += v;
        }
        for s in o.samples {
            if self.samples.len() < self.sample_cap.max(6) {
                self.samples.push(s);
            }
        }
        for (k, v) in o.known {
            *self.known.entry(k).or_insert(0) += v;
        }
        self.excluded += o.excluded;
        self.violations.extend(o.violations);
        self.notes.extend(o.notes);
        self.exhaustive_parts.extend(o.exhaustive_parts);
        self.distinct_enumerated += o.distinct_enumerated;
    }
}

impl Stats {
    /// hand-over format between the lab process and the check that started it
    pub fn to_value(&self) -> Value {
        serde_json::json!({
            "evaluations": self.evaluations,
            "nontrivial": self.nontrivial.iter().collect::<Vec<_>>(),
            "classes": self.classes,
            "samples": self.samples,
            "known": self.known,
            "excluded": self.excluded,
            "violations": self.violations.iter().map(|v| serde_json::json!({"check": v.check, "sig": v.sig, "detail": v.detail, "input": v.input})).collect::<Vec<_>>(),
            "notes": self.notes,
            "distinct_enumerated": self.distinct_enumerated,
        })
    }
    pub fn from_value(v: &Value) -> Option<Stats> {
        let mut s = Stats::new();
        s.evaluations = v.get("evaluations")?.as_u64()?;
        s.nontrivial = v.get("nontrivial")?.as_array()?.iter().filter_map(|x| x.as_u64()).collect();
        for (k, n) in v.get("classes")?.as_object()? {
            s.classes.insert(k.clone(), n.as_u64()?);
        }
        s.samples = v.get("samples")?.as_array()?.clone();
        for (k, n) in v.get("known")?.as_object()? {
            s.known.insert(k.clone(), n.as_u64()?);
        }
        s.excluded = v.get("excluded")?.as_u64()?;
        for x in v.get("violations")?.as_array()? {
            s.violations.push(Violation::new(x.get("check")?.as_str()?, x.get("sig")?.as_str()?.to_string(), x.get("detail")?.as_str()?.to_string(), x.get("input")?.clone()));
        }
        s.notes = v.get("notes")?.as_array()?.iter().filter_map(|x| x.as_str().map(|s| s.to_string())).collect();
        s.distinct_enumerated = v.get("distinct_enumerated")?.as_u64()?;
        Some(s)
    }
}

/// Known findings file: `open:  property=<ID> sig=<signature> :: <text>` / `fixed: property=<ID> <commit> <text>`.
#[derive(Default, Clone)]
pub struct Findings {
    pub open: Vec<(String, String, String)>, // (property, sig, text)
}
impl Findings {
    pub fn load() -> Self {
        let p = verif_root().join("KNOWN_FINDINGS.txt");
        let mut f = Findings::default();
        if let Ok(s) = std::fs::read_to_string(p) {
            for line in s.lines() {
                let line = line.trim();
                if let Some(rest) = line.strip_prefix("open:") {
                    let rest = rest.trim();
                    let (head, text) = rest.split_once("::").unwrap_or((rest, ""));
                    let mut prop = String::new();
                    let mut sig = String::new();
                    if let Some(i) = head.find("property=") {
                        prop = head[i + 9..].split_whitespace().next().unwrap_or("").to_string();
                    }
                    if let Some(i) = head.find("sig=") {
                        sig = head[i + 4..].trim().to_string();
                    }
                    f.open.push((prop, sig, text.trim().to_string()));
                }
            }
        }
        f
    }
    pub fn lookup(&self, prop: &str, sig: &str) -> Option<&str> {
        self.open.iter().find(|(p, s, _)| p == prop && s == sig).map(|(_, _, t)| t.as_str())
    }
}

pub struct Ctx {
    pub prop: &'static str,
    pub level: &'static str,
    pub tier: Tier,
    pub seed: u64,
    pub findings: Findings,
    pub start: Instant,
}
impl Ctx {
    pub fn new(prop: &'static str, level: &'static str, tier: Tier) -> Self {
        let seed = std::env::var("VERIF_SEED").ok().and_then(|s| s.parse::<u64>().ok()).unwrap_or(1);
        Ctx { prop, level, tier, seed, findings: Findings::load(), start: Instant::now() }
    }
    /// Apply the known-findings filter to a check result: a violation whose signature is listed `open:` is counted and tolerated.
    pub fn filter(&self, r: CheckResult, stats: &mut Stats) -> CheckResult {
        match r {
            Err(v) if self.findings.lookup(self.prop, &v.sig).is_some() => {
                *stats.known.entry(v.sig.clone()).or_insert(0) += 1;
                Ok(())
            }
            other => other,
        }
    }
    /// Record the outcome of a directly enumerated case.
    pub fn record(&self, r: CheckResult, stats: &mut Stats) {
        if let Err(v) = self.filter(r, stats) {
            // keep the first violation per signature
            if !stats.violations.iter().any(|x| x.sig == v.sig) {
                stats.violations.push(v);
            }
        }
    }
    pub fn seed_for(&self, part: &str, shard: u64) -> u64 {
        shard_seed(self.seed, self.prop, part, shard)
    }

    /// Run `f` over `shards` fixed shards on the rayon pool; merge in shard order.
    pub fn shards(&self, part: &str, shards: u64, f: impl Fn(u64, u64, &mut Stats) + Sync) -> Stats {
        let parts: Vec<Stats> = (0..shards)
            .into_par_iter()
            .map(|i| {
                let mut st = Stats::new();
                f(i, self.seed_for(part, i), &mut st);
                st
            })
            .collect();
        let mut all = Stats::new();
        for p in parts {
            all.merge(p);
        }
        all
    }

    /// Drive `check` with `cases` values of `strat` from a deterministic proptest runner; on failure the
    /// shrunk case's violation is recorded (first per signature).
    pub fn proptest<S, F>(&self, seed: u64, cases: u32, strat: &S, stats: &mut Stats, check: F)
    where
        S: Strategy,
        S::Value: Clone + std::fmt::Debug,
        F: Fn(&S::Value, &mut Stats) -> CheckResult,
    {
        let mut seed_bytes = [0u8; 32];
        for i in 0..4 {
            seed_bytes[i * 8..i * 8 + 8].copy_from_slice(&splitmix(seed.wrapping_add(i as u64)).to_le_bytes());
        }
        let cfg = Config {
            cases,
            failure_persistence: None,
            max_shrink_iters: 4096,
            max_global_rejects: cases.saturating_mul(4).max(1024),
            ..Config::default()
        };
        let rng = TestRng::from_seed(RngAlgorithm::ChaCha, &seed_bytes);
        let mut runner = TestRunner::new_with_rng(cfg, rng);
        let failed = Cell::new(false);
        let st = RefCell::new(std::mem::take(stats));
        let result = runner.run(strat, |v| {
            if failed.get() {
                // shrinking: do not count
                let mut scratch = Stats::new();
                return match self.filter(check(&v, &mut scratch), &mut scratch) {
                    Ok(()) => Ok(()),
                    Err(viol) => Err(TestCaseError::fail(viol.sig)),
                };
            }
            let mut s = st.borrow_mut();
            let r = check(&v, &mut s);
            match self.filter(r, &mut s) {
                Ok(()) => Ok(()),
                Err(viol) => {
                    failed.set(true);
                    Err(TestCaseError::fail(viol.sig))
                }
            }
        });
        *stats = st.into_inner();
        match result {
            Ok(()) => {}
            Err(TestError::Fail(_, minimal)) => {
                let mut scratch = Stats::new();
                match self.filter(check(&minimal, &mut scratch), &mut scratch) {
                    Err(v) => {
                        if !stats.violations.iter().any(|x| x.sig == v.sig) {
                            stats.violations.push(v);
                        }
                    }
                    Ok(()) => stats.notes.push("shrunk case stopped failing (non-deterministic check?)".into()),
                }
            }
            Err(TestError::Abort(why)) => stats.notes.push(format!("proptest aborted: {why}")),
        }
    }

    /// Generate one value from a strategy with a deterministic runner (for enumerations that need random bodies).
    pub fn sample_values<S: Strategy>(&self, seed: u64, n: usize, strat: &S) -> Vec<S::Value> {
        let mut seed_bytes = [0u8; 32];
        for i in 0..4 {
            seed_bytes[i * 8..i * 8 + 8].copy_from_slice(&splitmix(seed.wrapping_add(i as u64)).to_le_bytes());
        }
        let rng = TestRng::from_seed(RngAlgorithm::ChaCha, &seed_bytes);
        let mut runner = TestRunner::new_with_rng(Config { failure_persistence: None, ..Config::default() }, rng);
        (0..n).map(|_| strat.new_tree(&mut runner).expect("strategy").current()).collect()
    }

    /// Write evidence, print KNOWN-FINDING / VIOLATION lines, return the exit code.
    pub fn finish(&self, mut stats: Stats, rule: &str, assumptions: &[&str], exhaustive: bool) -> i32 {
        let root = verif_root();
        let mut code = 0;
        // known findings
        for (sig, n) in &stats.known {
            let text = self.findings.lookup(self.prop, sig).unwrap_or("");
            println!("KNOWN-FINDING: property={} {} [sig={} hits={}]", self.prop, text, sig, n);
        }
        // violations
        let mut seen = HashSet::new();
        let mut nviol = 0;
        for v in &stats.violations {
            if !seen.insert(v.sig.clone()) {
                continue;
            }
            nviol += 1;
            let dir = root.join("replays").join(self.prop);
            let _ = std::fs::create_dir_all(&dir);
            let path = dir.join(format!("{:016x}.json", fnv_str(&v.sig)));
            let body = json!({"property": self.prop, "check": v.check, "sig": v.sig, "detail": v.detail, "seed": self.seed, "tier": self.tier.name(), "input": v.input});
            let _ = std::fs::write(&path, serde_json::to_string_pretty(&body).unwrap());
            println!("VIOLATION property={} replay={}", self.prop, path.display());
            println!("  sig: {}", v.sig);
            println!("  {}", clip(&v.detail, 1500));
            code = 1;
        }
        for n in &stats.notes {
            println!("note: {n}");
        }
        let wall = self.start.elapsed().as_secs_f64();
        if stats.samples.is_empty() {
            stats.samples.push(json!("(no samples recorded)"));
        }
        let ev = json!({
            "property_id": self.prop,
            "tier": self.tier.name(),
            "seed": self.seed,
            "level": self.level,
            "coverage": {
                "evaluations": stats.evaluations,
                "distinct_nontrivial": stats.nontrivial.len() as u64 + stats.distinct_enumerated,
                "rule": rule,
                "samples": stats.samples,
                "classes": stats.classes,
                "exhaustive": exhaustive,
                "exhaustive_parts": stats.exhaustive_parts,
                "known_findings": stats.known,
                "excluded_by_known_findings": stats.excluded,
            },
            "assumptions": assumptions,
            "wall_s": (wall * 1000.0).round() / 1000.0,
            "violations": nviol,
        });
        let evdir = root.join("evidence");
        let _ = std::fs::create_dir_all(&evdir);
        let evpath = evdir.join(format!("{}.json", self.prop));
        if let Err(e) = std::fs::write(&evpath, serde_json::to_string_pretty(&ev).unwrap()) {
            eprintln!("cannot write evidence {}: {e}", evpath.display());
            return 2;
        }
        println!(
            "{} {} seed={} evaluations={} distinct_nontrivial={} violations={} known={} wall={:.1}s",
            self.prop,
            self.tier.name(),
            self.seed,
            stats.evaluations,
            stats.nontrivial.len() as u64 + stats.distinct_enumerated,
            nviol,
            stats.known.len(),
            wall
        );
        code
    }
}

/// Load all regression files of a property: (path, check, input).
pub fn load_regressions(prop: &str) -> Vec<(PathBuf, String, Value)> {
    let dir = verif_root().join("regressions").join(prop);
    let mut out = vec![];
    if let Ok(rd) = std::fs::read_dir(&dir) {
        let mut paths: Vec<PathBuf> = rd.filter_map(|e| e.ok().map(|e| e.path())).filter(|p| p.extension().map(|e| e == "json").unwrap_or(false)).collect();
        paths.sort();
        for p in paths {
            if let Some((c, i)) = load_replay(&p) {
                out.push((p, c, i));
            }
        }
    }
    out
}
pub fn load_replay(p: &Path) -> Option<(String, Value)> {
    let s = std::fs::read_to_string(p).ok()?;
    let v: Value = serde_json::from_str(&s).ok()?;
    Some((v.get("check")?.as_str()?.to_string(), v.get("input")?.clone()))
}

/// Run a closure, converting a panic into Err(message). The panic hook is silenced process-wide by `silence_panics`.
pub fn guard<T>(f: impl FnOnce() -> T) -> Result<T, String> {
    match std::panic::catch_unwind(std::panic::AssertUnwindSafe(f)) {
        Ok(v) => Ok(v),
        Err(e) => Err(if let Some(s) = e.downcast_ref::<&str>() {
            s.to_string()
        } else if let Some(s) = e.downcast_ref::<String>() {
            s.clone()
        } else {
            "panic".to_string()
        }),
    }
}
pub fn silence_panics() {
    std::panic::set_hook(Box::new(|_| {}));
    install_null_logger();
}

/// A logger at the most verbose level that discards every record: the code under test enters its logging statements and
/// evaluates their arguments (slices, unwraps, arithmetic inside a `debug!(..)`) exactly as under `RUST_LOG=trace`, so a
/// panic hidden in a log statement is part of what the checks see. Records are not formatted (the hex dumps of whole
/// buffers the library logs would make the byte-level checks quadratic).
pub fn install_null_logger() {
    struct Null;
    impl log::Log for Null {
        fn enabled(&self, _: &log::Metadata) -> bool {
            true
        }
        fn log(&self, _record: &log::Record) {}
        fn flush(&self) {}
    }
    static NULL: Null = Null;
    if std::env::var_os("VERIF_NO_LOGGER").is_none() && log::set_logger(&NULL).is_ok() {
        log::set_max_level(log::LevelFilter::Trace);
    }
}

/// Coverage-guided campaign (thorough tiers): builds the cargo-fuzz target under harness/fuzz and runs it for a fixed
/// number of runs from a fresh scratch corpus seeded with `seeds`. Returns Ok(Some(input)) if libFuzzer saved a
/// crashing input, Ok(None) if the campaign ended cleanly, Err(text) if the target could not be built / run
/// (infrastructure: never a verdict). libFuzzer's `-seed` pins a campaign only approximately; the saved input is the
/// reproducible unit and is re-checked by the caller through the deterministic path before it is reported.
pub fn fuzz_campaign(target: &str, runs: u64, max_len: usize, seed: u64, seeds: &[Vec<u8>]) -> Result<(Option<Vec<u8>>, String), String> {
    let root = verif_root();
    let hdir = root.join("harness");
    let tdir = root.join("target").join("fuzz-build");
    let build = std::process::Command::new("cargo").args(["+nightly", "fuzz", "build", target, "--target-dir"]).arg(&tdir).current_dir(&hdir).env("CARGO_NET_OFFLINE", "true").env_remove("CARGO_TARGET_DIR").output().map_err(|e| e.to_string())?;
    if !build.status.success() {
        return Err(format!("cargo fuzz build failed: {}", String::from_utf8_lossy(&build.stderr).lines().rev().take(5).collect::<Vec<_>>().join(" | ")));
    }
    let bin = tdir.join("x86_64-unknown-linux-gnu").join("release").join(target);
    let work = root.join("target").join(format!("fuzz-{target}"));
    let _ = std::fs::remove_dir_all(&work);
    let corpus = work.join("corpus");
    let arts = work.join("artifacts");
    std::fs::create_dir_all(&corpus).map_err(|e| e.to_string())?;
    std::fs::create_dir_all(&arts).map_err(|e| e.to_string())?;
    for (i, s) in seeds.iter().enumerate() {
        let _ = std::fs::write(corpus.join(format!("seed-{i:04}")), s);
    }
    let out = std::process::Command::new(&bin)
        .arg(&corpus)
        .args([format!("-runs={runs}"), format!("-seed={}", seed.max(1) & 0x7fff_ffff), format!("-max_len={max_len}"), "-len_control=0".into(), "-print_final_stats=1".into(), "-rss_limit_mb=4096".into(), format!("-artifact_prefix={}/", arts.display())])
        .env("VERIF_ROOT", &root)
        .output()
        .map_err(|e| e.to_string())?;
    let text = String::from_utf8_lossy(&out.stderr).to_string();
    let stat = text.lines().filter(|l| l.starts_with("stat::") || l.starts_with("Done ")).collect::<Vec<_>>().join("; ");
    let mut crash = None;
    if let Ok(rd) = std::fs::read_dir(&arts) {
        for e in rd.flatten() {
            if let Ok(b) = std::fs::read(e.path()) {
                crash = Some(b);
                break;
            }
        }
    }
    let viol = text.lines().find(|l| l.starts_with("FUZZ-VIOLATION")).unwrap_or("").to_string();
    let _ = std::fs::remove_dir_all(&corpus);
    Ok((crash, format!("{stat} {viol}")))
}
