//! Counting allocator (harness only): bytes allocated per guarded call, with a hard per-call cap.
//! Crossing the hard cap is deterministic evidence of unbounded allocation: the input registered for the
//! current call is written to a replay file with raw syscalls and the process exits 1 with a VIOLATION line.
use std::alloc::{GlobalAlloc, Layout, System};
use std::cell::Cell;

pub struct Counting;

thread_local! {
    static BYTES: Cell<usize> = const { Cell::new(0) };
    static CAP: Cell<usize> = const { Cell::new(usize::MAX) };
    static CUR_PTR: Cell<*const u8> = const { Cell::new(std::ptr::null()) };
    static CUR_LEN: Cell<usize> = const { Cell::new(0) };
    static CUR_DEC: Cell<usize> = const { Cell::new(0) };
}

unsafe impl GlobalAlloc for Counting {
    unsafe fn alloc(&self, l: Layout) -> *mut u8 {
        note(l.size());
        System.alloc(l)
    }
    unsafe fn dealloc(&self, p: *mut u8, l: Layout) {
        System.dealloc(p, l)
    }
    unsafe fn alloc_zeroed(&self, l: Layout) -> *mut u8 {
        note(l.size());
        System.alloc_zeroed(l)
    }
    unsafe fn realloc(&self, p: *mut u8, l: Layout, new: usize) -> *mut u8 {
        if new > l.size() {
            note(new - l.size());
        }
        System.realloc(p, l, new)
    }
}

#[inline]
fn note(n: usize) {
    let _ = BYTES.try_with(|b| {
        let v = b.get().wrapping_add(n);
        b.set(v);
        let cap = CAP.try_with(|c| c.get()).unwrap_or(usize::MAX);
        if v > cap {
            hard_fail(v);
        }
    });
}

static mut REPLAY_PATH: [u8; 256] = [0; 256];
static mut REPLAY_LEN: usize = 0;

/// Where the hard-cap replay file goes (set once at start-up, before any guarded call).
pub fn set_replay_path(p: &str) {
    unsafe {
        let b = p.as_bytes();
        let n = b.len().min(255);
        let dst = std::ptr::addr_of_mut!(REPLAY_PATH) as *mut u8;
        std::ptr::copy_nonoverlapping(b.as_ptr(), dst, n);
        *dst.add(n) = 0;
        REPLAY_LEN = n;
    }
}

fn wr(fd: i32, b: &[u8]) {
    unsafe {
        libc::write(fd, b.as_ptr() as *const libc::c_void, b.len());
    }
}
fn wr_num(fd: i32, mut n: usize) {
    let mut buf = [0u8; 24];
    let mut i = buf.len();
    if n == 0 {
        i -= 1;
        buf[i] = b'0';
    }
    while n > 0 {
        i -= 1;
        buf[i] = b'0' + (n % 10) as u8;
        n /= 10;
    }
    wr(fd, &buf[i..]);
}

#[cold]
fn hard_fail(bytes: usize) -> ! {
    // no allocation from here on
    CAP.with(|c| c.set(usize::MAX));
    unsafe {
        let path = std::ptr::addr_of!(REPLAY_PATH) as *const u8;
        let plen = REPLAY_LEN;
        if plen > 0 {
            let fd = libc::open(path as *const libc::c_char, libc::O_WRONLY | libc::O_CREAT | libc::O_TRUNC, 0o644);
            if fd >= 0 {
                wr(fd, b"{\"property\":\"C02\",\"check\":\"decode\",\"sig\":\"C02 kind=allocation-cap\",\"detail\":\"one decode call allocated more than the hard cap\",\"input\":{\"decoder_index\":");
                wr_num(fd, CUR_DEC.with(|c| c.get()));
                wr(fd, b",\"allocated\":");
                wr_num(fd, bytes);
                wr(fd, b",\"bytes\":\"");
                let (p, n) = (CUR_PTR.with(|c| c.get()), CUR_LEN.with(|c| c.get()));
                if !p.is_null() {
                    let s = std::slice::from_raw_parts(p, n);
                    const HEX: &[u8; 16] = b"0123456789abcdef";
                    for b in s {
                        wr(fd, &[HEX[(b >> 4) as usize], HEX[(b & 15) as usize]]);
                    }
                }
                wr(fd, b"\"}}\n");
                libc::close(fd);
            }
            wr(1, b"VIOLATION property=C02 replay=");
            wr(1, std::slice::from_raw_parts(path, plen));
            wr(1, b"\n  sig: C02 kind=allocation-cap (a single decode call allocated more than the hard cap)\n");
        }
        libc::_exit(1)
    }
}

// ---- watchdog: one slot per worker thread; a monitor thread reports a call that makes no progress for a long time ----
use std::sync::atomic::{AtomicPtr, AtomicU64, AtomicUsize, Ordering};
const SLOTS: usize = 64;
struct Slot {
    ptr: AtomicPtr<u8>,
    len: AtomicUsize,
    dec: AtomicUsize,
    calls: AtomicU64,
}
#[allow(clippy::declare_interior_mutable_const)]
const EMPTY: Slot = Slot { ptr: AtomicPtr::new(std::ptr::null_mut()), len: AtomicUsize::new(0), dec: AtomicUsize::new(0), calls: AtomicU64::new(0) };
static WATCH: [Slot; SLOTS] = [EMPTY; SLOTS];
static NEXT_SLOT: AtomicUsize = AtomicUsize::new(0);
thread_local! {
    static MY_SLOT: Cell<usize> = const { Cell::new(usize::MAX) };
}
fn my_slot() -> usize {
    MY_SLOT.with(|s| {
        if s.get() == usize::MAX {
            s.set(NEXT_SLOT.fetch_add(1, Ordering::Relaxed) % SLOTS);
        }
        s.get()
    })
}
/// Start the monitor: if one guarded call is still running after `secs` seconds of wall time, the input is dumped and the
/// process exits 2 (INCONCLUSIVE - wall time is never used as a correctness verdict).
pub fn start_watchdog(property: &'static str, secs: u64, dump_dir: std::path::PathBuf) {
    std::thread::spawn(move || {
        let mut last: Vec<(u64, *mut u8)> = vec![(0, std::ptr::null_mut()); SLOTS];
        let mut stuck: Vec<u64> = vec![0; SLOTS];
        loop {
            std::thread::sleep(std::time::Duration::from_secs(5));
            for (i, s) in WATCH.iter().enumerate() {
                let now = (s.calls.load(Ordering::Relaxed), s.ptr.load(Ordering::Relaxed));
                if !now.1.is_null() && now == last[i] {
                    stuck[i] += 5;
                } else {
                    stuck[i] = 0;
                }
                last[i] = now;
                if stuck[i] >= secs {
                    let n = s.len.load(Ordering::Relaxed).min(1 << 16);
                    let bytes = unsafe { std::slice::from_raw_parts(now.1, n) }.to_vec();
                    let _ = std::fs::create_dir_all(&dump_dir);
                    let path = dump_dir.join("watchdog-hang.json");
                    let hexs: String = bytes.iter().map(|b| format!("{b:02x}")).collect();
                    let _ = std::fs::write(&path, format!("{{\"property\":\"{property}\",\"check\":\"decode\",\"sig\":\"watchdog\",\"input\":{{\"decoder_index\":{},\"bytes\":\"{hexs}\"}}}}\n", s.dec.load(Ordering::Relaxed)));
                    println!("INCONCLUSIVE property={property} hang? one guarded call has been running for more than {secs} s of wall time; input saved to {}", path.display());
                    std::process::exit(2);
                }
            }
        }
    });
}

/// Run `f` with allocation accounting: returns (result, bytes allocated by this thread during the call).
/// `input`/`decoder` are registered for the hard-cap report.
pub fn measured<T>(input: &[u8], decoder: usize, hard_cap: usize, f: impl FnOnce() -> T) -> (T, usize) {
    CUR_PTR.with(|c| c.set(input.as_ptr()));
    CUR_LEN.with(|c| c.set(input.len()));
    CUR_DEC.with(|c| c.set(decoder));
    let slot = &WATCH[my_slot()];
    slot.len.store(input.len(), Ordering::Relaxed);
    slot.dec.store(decoder, Ordering::Relaxed);
    slot.calls.fetch_add(1, Ordering::Relaxed);
    slot.ptr.store(input.as_ptr() as *mut u8, Ordering::Relaxed);
    BYTES.with(|b| b.set(0));
    CAP.with(|c| c.set(hard_cap));
    let r = f();
    CAP.with(|c| c.set(usize::MAX));
    let n = BYTES.with(|b| b.get());
    slot.ptr.store(std::ptr::null_mut(), Ordering::Relaxed);
    CUR_PTR.with(|c| c.set(std::ptr::null()));
    (r, n)
}
