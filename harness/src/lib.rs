//! Verification harness for davisriedel/zvt: property-based testing and fuzzing (see /verif/DESIGN.md).
pub mod alloc;
pub mod engine;
pub mod gen;
pub mod labrun;
pub mod peer;
pub mod refc;
pub mod registry;
pub mod scenario;
pub mod seqs;
pub mod sim;
pub mod tree;
pub mod props {
    pub mod c01;
    pub mod c02;
    pub mod c04;
    pub mod c05;
    pub mod c07;
    pub mod c08;
    pub mod c09;
    pub mod c10;
    pub mod c11;
    pub mod c12;
    pub mod c13;
    pub mod c14;
    pub mod c15;
    pub mod c16;
    pub mod c17;
    pub mod c18;
    pub mod c20;
}

use engine::*;
use serde_json::Value;
use std::sync::Arc;

pub fn table() -> Arc<refc::Table> {
    Arc::new(refc::parse_table(include_str!("layouts.tbl")))
}

/// Replay every saved regression input of the property first (DESIGN.md section 3).
pub fn run_regressions(ctx: &Ctx, stats: &mut Stats, replay: fn(&str, &Value) -> Option<CheckResult>) {
    for (path, check, input) in load_regressions(ctx.prop) {
        match replay(&check, &input) {
            Some(r) => {
                stats.case(true, fnv_str(&path.display().to_string()));
                stats.class("regression-replay");
                ctx.record(r, stats);
            }
            None => stats.notes.push(format!("regression file {} not understood", path.display())),
        }
    }
}

pub type RunFn = fn(Tier) -> i32;
pub type ReplayFn = fn(&str, &Value) -> Option<CheckResult>;
fn run_c01(t: Tier) -> i32 {
    props::c01::run_codec("C01", t)
}
fn run_c03(t: Tier) -> i32 {
    props::c01::run_codec("C03", t)
}
pub fn dispatch() -> Vec<(&'static str, RunFn, ReplayFn)> {
    vec![
        ("C01", run_c01 as RunFn, props::c01::replay_c01 as ReplayFn),
        ("C02", props::c02::run, props::c02::replay),
        ("C03", run_c03, props::c01::replay_c03),
        ("C04", props::c04::run, props::c04::replay),
        ("C05", props::c05::run_c05, props::c05::replay_c05),
        ("C06", props::c05::run_c06, props::c05::replay_c06),
        ("C07", props::c07::run_c07, props::c07::replay_c07),
        ("C08", props::c08::run, props::c08::replay),
        ("C09", props::c09::run, props::c09::replay),
        ("C10", props::c10::run, props::c10::replay),
        ("C11", props::c11::run, props::c11::replay),
        ("C12", props::c12::run, props::c12::replay),
        ("C13", props::c13::run, props::c13::replay),
        ("C14", props::c14::run, props::c14::replay),
        ("C15", props::c15::run, props::c15::replay),
        ("C16", props::c16::run, props::c16::replay),
        ("C18", props::c18::run, props::c18::replay),
        ("C19", props::c07::run_c19, props::c07::replay_c19),
        ("C20", props::c20::run, props::c20::replay),
        ("C17", props::c17::run, props::c17::replay),
    ]
}

/// Registry entry for a generated (lab) struct.
#[macro_export]
macro_rules! lab_ty {
    ($name:literal, $t:ty) => {
        $crate::registry::TypeEntry { name: $name, probe: $crate::registry::probe_ty::<$t>, decode: $crate::registry::decode_ty::<$t>, quiet: $crate::registry::quiet_ty::<$t>, eq: $crate::registry::eq_ty::<$t> }
    };
}
