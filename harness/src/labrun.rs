//! Runner of the derive lab (C12): compares generated `#[derive(Zvt)]` code with the reference codec interpreting the
//! generator's own description, on canonical values; plus the C13 edits, C14 relations and a totality pass per struct.
use crate::alloc::measured;
use crate::engine::*;
use crate::gen::*;
use crate::props::{c01, c13, c14};
use crate::refc::*;
use crate::registry::TypeEntry;
use crate::tree::*;
use serde_json::{json, Value};
use std::sync::Arc;

/// the property on whose behalf this lab process runs (VERIF_LAB_PROP): C12 = every condition; C13 = tagged-group edits
/// only; C14 = suffix / shortened-length relations only
fn mode() -> &'static str {
    match std::env::var("VERIF_LAB_PROP").ok().as_deref() {
        Some("C13") => "C13",
        Some("C14") => "C14",
        _ => "C12",
    }
}

fn read_lab_file(name: &str) -> String {
    std::fs::read_to_string(crate::props::c12::lab_dir(mode()).join("src").join(name)).unwrap_or_default()
}

/// Source of struct `name` and of everything it nests (for replay files).
fn closure(table: &Table, name: &str, out: &mut Vec<String>) {
    if out.iter().any(|n| n == name) {
        return;
    }
    for f in &table[name].fields {
        if let Enc::Struct(n) = &f.enc {
            closure(table, n, out);
        }
    }
    out.push(name.to_string());
}
fn program_for(table: &Table, name: &str, shape: &str) -> Value {
    let mut names = vec![];
    closure(table, name, &mut names);
    let rs = read_lab_file("gen.rs");
    let tbl = read_lab_file("gen.tbl");
    let mut src = String::new();
    let mut tsrc = String::new();
    for n in &names {
        let short = n.rsplit('.').next().unwrap();
        // struct block: from the preceding "#[derive" to the closing brace
        if let Some(pos) = rs.find(&format!("pub struct {short} {{")) {
            let start = rs[..pos].rfind("#[derive").unwrap_or(pos);
            let end = rs[pos..].find("\n}\n").map(|e| pos + e + 3).unwrap_or(rs.len());
            src += &rs[start..end];
            src.push('\n');
        }
        let mut on = false;
        for line in tbl.lines() {
            if line.starts_with("struct ") {
                on = line.split_whitespace().nth(1) == Some(n.as_str());
            }
            if on {
                tsrc += line;
                tsrc.push('\n');
            }
        }
    }
    let short = name.rsplit('.').next().unwrap();
    let reg = format!("pub fn lab_types() -> Vec<zvtverif::registry::TypeEntry> {{\n    vec![zvtverif::lab_ty!(\"{name}\", {short})]\n}}\npub fn shapes() -> Vec<&'static str> {{\n    vec![{shape:?}]\n}}\n");
    json!({"program_rs": src, "program_tbl": tsrc, "registry_rs": reg})
}

/// Totality pass on a value's encoding: every truncation and a few length edits; no panic, bounded allocation, suffix remainder.
fn totality(e: &TypeEntry, bytes: &[u8], idx: usize) -> Result<(), String> {
    let one = |b: &[u8]| -> Result<(), String> {
        let (r, allocated) = measured(b, idx, 512 << 20, || guard(|| (e.quiet)(b)));
        match r {
            Err(p) => Err(format!("decoding {} panicked: {p}", clip(&hex(b), 200))),
            Ok(Ok(rest)) if rest == usize::MAX || rest > b.len() => Err(format!("remainder is not a suffix for {}", clip(&hex(b), 200))),
            Ok(_) if allocated > 200 * b.len() + (16 << 10) => Err(format!("decoding {} bytes allocated {allocated}", b.len())),
            Ok(_) => Ok(()),
        }
    };
    for cut in 0..bytes.len() {
        one(&bytes[..cut])?;
    }
    for k in 0..bytes.len().min(48) {
        for v in [0x00u8, 0x7f, 0x81, 0x82, 0xff, 0x99] {
            let mut m = bytes.to_vec();
            m[k] = v;
            one(&m)?;
        }
    }
    Ok(())
}

/// All conditions for one (struct, value) pair. The violation's input carries what `--replay` needs.
pub fn check_value(t: &Table, e: &TypeEntry, idx: usize, shape: &str, v: &Val) -> CheckResult {
    let l = &t[e.name];
    let wrap = |cond: &str, inner: Violation| -> Violation {
        let mut input = program_for(t, e.name, shape);
        input["struct"] = json!(e.name);
        input["value"] = serde_json::to_value(v).unwrap();
        let kind = inner.sig.split("kind=").nth(1).unwrap_or("").to_string();
        let sig = if mode() == "C12" { format!("C12 cond={cond} kind={kind}") } else { format!("{} lab cond={cond} kind={kind}", mode()) };
        input["sig"] = json!(sig);
        let hint = match (inner.input.get("path"), inner.input.get("edit")) {
            (Some(p), Some(ed)) => format!("\n  edit {ed} at level {p}"),
            _ => String::new(),
        };
        Violation::new("lab", sig, format!("struct {} [{shape}]\n  {}{hint}", e.name, inner.detail), input)
    };
    let m = mode();
    // C01 + C03 conditions
    if m == "C12" {
        let r = c01::codec_case(t, e, v);
        r.c03.map_err(|x| wrap("layout", x))?;
        r.c01.map_err(|x| wrap("roundtrip", x))?;
    }
    // C13 edits (not for layouts in which a nested struct without length prefix is followed by tagged fields of the
    // enclosing struct: there the two tag sets share one byte level and moved / inserted groups change which struct owns
    // what follows; such layouts get the layout / round-trip / suffix / totality conditions only)
    let edits = if has_open_embedding(t, l) || m == "C14" { vec![] } else { c13::edits_of(t, e.name, v, 3, 4) };
    for (path, edit) in edits {
        // levels below a positional vector / positional option are outside the canonical domain for edits
        let gs = build(t, l, v).map_err(|_| ()).unwrap_or_default();
        if swallowing_step(&gs, &path).1 || positional_vec_on_path(&gs, &path) {
            continue;
        }
        c13::check_edit(t, e, v, &path, &edit).map_err(|x| wrap("tagged-edit", x))?;
    }
    // C14 relations
    if l.ctrl.is_some() && m != "C13" {
        for sfx in [&[][..], &[0x00], &[0xff], &[0x06, 0x0f, 0x00], &[0x1f]] {
            c14::check_suffix(t, e, v, sfx).map_err(|x| wrap("suffix", x))?;
        }
        c14::check_reannounce(t, e, v, None, 1, &[]).map_err(|x| wrap("shortened-apdu", x))?;
    }
    // a struct that delimits itself (positional, mandatory, fixed-size or length-prefixed fields only) hands back whatever
    // follows it untouched - also a lone 1f / ff, which is not a complete tag
    if l.ctrl.is_none() && m != "C13" && self_delimiting(t, l) {
        for sfx in [&[0x1f][..], &[0xff], &[0x00], &[0x1f, 0x00], &[0x06, 0x0f, 0x00]] {
            c14::check_suffix(t, e, v, sfx).map_err(|x| wrap("suffix", x))?;
        }
    }
    // totality
    if m != "C12" {
        return Ok(());
    }
    let bytes = encode(t, l, v).unwrap();
    totality(e, &bytes, idx).map_err(|d| wrap("totality", Violation::new("lab", "x kind=totality".to_string(), d, Value::Null)))?;
    Ok(())
}

pub fn self_delimiting(t: &Table, l: &Layout) -> bool {
    l.fields.iter().all(|f| {
        f.tag.is_none()
            && f.card == Card::One
            && match (&f.len, &f.enc) {
                (Len::Llv | Len::Lllv | Len::Tlv | Len::Fixed(_), _) => true,
                (Len::None, Enc::Le(_) | Enc::Be(_)) => true,
                (Len::None, Enc::Struct(n)) => self_delimiting(t, &t[n]),
                _ => false,
            }
    })
}

/// a positional nested struct without length prefix that is followed by tagged fields, here or in a nested layout
pub fn has_open_embedding(t: &Table, l: &Layout) -> bool {
    let tagged_follow = l.fields.iter().any(|f| f.tag.is_some());
    l.fields.iter().any(|f| match &f.enc {
        Enc::Struct(n) => (f.tag.is_none() && f.len == Len::None && tagged_follow && t[n].fields.iter().any(|g| g.tag.is_some())) || has_open_embedding(t, &t[n]),
        _ => false,
    })
}

fn positional_vec_on_path(gs: &[Group], path: &[(usize, usize)]) -> bool {
    let mut cur = gs;
    // a positional vector at the level itself or above makes moved groups ambiguous
    for (gi, ei) in path {
        if cur.iter().any(|g| g.tag.is_none() && g.card == Card::Vec) {
            return true;
        }
        match &cur[*gi].elems[*ei].node {
            Node::Struct(inner) => cur = inner,
            _ => return false,
        }
    }
    cur.iter().any(|g| g.tag.is_none() && g.card == Card::Vec)
}

pub fn main(types: Vec<TypeEntry>, shapes: Vec<&'static str>, table_src: &str) -> i32 {
    silence_panics();
    let args: Vec<String> = std::env::args().skip(1).collect();
    let t: Arc<Table> = Arc::new(parse_table(table_src));
    if args.first().map(|s| s.as_str()) == Some("--replay-case") {
        let Ok(text) = std::fs::read_to_string(&args[1]) else { return 2 };
        let Ok(i) = serde_json::from_str::<Value>(&text) else { return 2 };
        let Some(name) = i.get("struct").and_then(|s| s.as_str()) else { return 2 };
        let Some(idx) = types.iter().position(|e| e.name == name) else { return 2 };
        let Ok(v) = serde_json::from_value::<Val>(i["value"].clone()) else { return 2 };
        if !is_canonical(&t, &t[name], &v) {
            println!("value is not canonical for the struct");
            return 0;
        }
        return match check_value(&t, &types[idx], idx, shapes[idx], &v) {
            Ok(()) => 0,
            Err(v) => {
                println!("{}\n  {}", v.sig, v.detail);
                1
            }
        };
    }
    let tier = if args.first().map(|s| s.as_str()) == Some("thorough") { Tier::Thorough } else { Tier::Quick };
    let p = mode();
    let ctx = Ctx::new(p, "exploration", tier);
    crate::alloc::start_watchdog(p, 60, verif_root().join("replays").join(p));
    let mut stats = Stats::new();
    stats.sample_cap = 8;
    let per_struct: u32 = tier.pick(200, 600);
    let s = ctx.shards("structs", types.len() as u64, |i, seed, st| {
        let e = &types[i as usize];
        let l = t[e.name].clone();
        let shape = shapes[i as usize];
        let npos = l.fields.iter().filter(|f| f.tag.is_none()).count();
        let ntag = l.fields.len() - npos;
        let nontrivial = (npos >= 1 && ntag >= 1) || l.fields.iter().any(|f| matches!(f.enc, Enc::Struct(_)) || f.card == Card::Vec);
        st.class("programs");
        if nontrivial {
            st.class("programs:non-trivial");
        }
        if l.fields.iter().any(|f| matches!(f.enc, Enc::Struct(_))) {
            st.class("programs:with-nested-struct");
        }
        if shape.contains("?q") || shape.contains("*q") {
            st.class("programs:container-type-spelled-with-a-path");
        }
        if l.ctrl.is_some() {
            st.class("programs:command");
        }
        if has_open_embedding(&t, &l) {
            st.class("programs:unprefixed-nested-struct-followed-by-tagged-fields");
        }
        if l.fields.iter().any(|f| f.tag.is_none() && f.card == Card::Opt && f.len == Len::None && matches!(&f.enc, Enc::Struct(n) if t[n].fields.iter().any(|g| g.tag.is_some() && g.card == Card::One))) {
            st.class("programs:positional-option-of-unprefixed-struct-with-mandatory-tag");
        }
        if l.fields.iter().any(|f| f.tag.is_none() && f.len == Len::None && matches!(&f.enc, Enc::Struct(n) if self_delimiting(&t, &t[n]))) {
            st.class("programs:unprefixed-self-delimiting-group");
        }
        if l.fields.iter().filter(|f| f.tag.is_some() && f.card == Card::One).count() >= 3 {
            st.class("programs:>=3-mandatory-tagged-fields");
        }
        if i < 3 {
            st.sample(|| json!({"struct": e.name, "shape": shape, "table": crate::props::c12::table_text(&l), "source": program_for(&t, e.name, shape)["program_rs"]}));
        }
        let strat = strategy_for(&t, e.name, GenCfg { vec_max: 3, text_max: 40, blob_max: 40 });
        ctx.proptest(seed, per_struct, &strat, st, |v, st| {
            if !is_canonical(&t, &l, v) {
                st.class("discarded-non-canonical");
                return Ok(());
            }
            st.case(nontrivial, fnv(&encode(&t, &l, v).unwrap()) ^ fnv_str(shape) ^ (i << 48));
            if i == 3 && st.samples.len() < 2 {
                st.sample(|| json!({"struct": e.name, "value": clip(&render(v), 300), "bytes": clip(&hex(&encode(&t, &l, v).unwrap()), 200)}));
            }
            check_value(&t, e, i as usize, shape, v)
        });
    });
    stats.merge(s);
    let programs = types.len();
    if p != "C12" {
        // lab half of another property: hand the counts and violations to the check that started this process
        stats.class_n("programs-compiled", programs as u64);
        let Some(path) = std::env::var_os("VERIF_LAB_STATS") else { return 2 };
        return match std::fs::write(path, serde_json::to_string(&stats.to_value()).unwrap()) {
            Ok(()) => 0,
            Err(_) => 2,
        };
    }
    let rule = format!(
        "{programs} struct definitions drawn (proptest, seeded) from the well-formed attribute grammar of DESIGN.md Appendix D (1..8 fields, positional then tagged, Option/Vec, every length style and encoding, nested structs to depth 3, optional control field, both attribute spellings, container types spelled `Option<T>` / `std::option::Option<T>` / `::core::option::Option<T>` (likewise Vec), 1- and 2-byte tags; plus directed families: positional Option<struct> / struct without length prefix whose struct has tagged fields only, as last field, followed by tagged fields of the enclosing struct, one level deeper, and structs with 3..6 mandatory tagged fields), compiled against /repo's derive macro; per struct {per_struct} proptest-generated canonical values of the generator's own layout description. Oracle per (program, value): reference codec vs generated code (decodes to exactly the described fields, re-encodes identically, round-trips), tagged-group edits (C13 oracle), suffix / shortened-APDU relations (C14 oracle), truncation/byte-edit totality with the allocation bound. evaluations = (program, value) pairs; non-trivial = the struct has both positional and tagged fields, or a nested struct, or a Vec; distinct by (program shape, encoded value)"
    );
    let code = ctx.finish(stats, &rule, &["well-formedness (unique decodability) is established by construction in props/c12.rs; layouts outside it are not programs in the property's sense", "program-level shrinking is by isolation of the failing struct (the replay file carries its source and table entry)"], false);
    // translation-style extra key: number of programs
    if let Ok(text) = std::fs::read_to_string(verif_root().join("evidence").join("C12.json")) {
        if let Ok(mut v) = serde_json::from_str::<Value>(&text) {
            v["coverage"]["programs"] = json!(programs);
            let _ = std::fs::write(verif_root().join("evidence").join("C12.json"), serde_json::to_string_pretty(&v).unwrap());
        }
    }
    code
}
