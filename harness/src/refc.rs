//! Reference codec: interprets the independent layout table (layouts.tbl, DESIGN.md Appendix A).
//! Shares no code with zvt_builder / zvt_derive: own BCD, own CP437 table, own tag and length readers.
use serde::{Deserialize, Serialize};
use std::collections::BTreeMap;

#[derive(Clone, Debug, PartialEq)]
pub enum Len { None, Fixed(usize), Llv, Lllv, Tlv, Temp }
#[derive(Clone, Debug, PartialEq)]
pub enum Enc { Le(u32), Be(u32), Bcd(u32), Hex, Cp437, Utf8, Bytes, ReceiptNo, DateTime, Struct(String) }
#[derive(Clone, Copy, Debug, PartialEq)]
pub enum Card { One, Opt, Vec }
#[derive(Clone, Debug)]
pub struct Field { pub name: String, pub card: Card, pub tag: Option<u16>, pub len: Len, pub enc: Enc }
#[derive(Clone, Debug)]
pub struct Layout { pub name: String, pub ctrl: Option<(u8, u8)>, pub fields: Vec<Field> }
pub type Table = BTreeMap<String, Layout>;

#[derive(Clone, Debug, PartialEq, Serialize, Deserialize)]
pub enum Val {
    U(u64),
    S(String),
    B(Vec<u8>),
    Dt(i32, u32, u32, u32, u32, u32),
    St(String, Vec<(String, Val)>),
    None,
    Some(Box<Val>),
    List(Vec<Val>),
}

pub fn parse_table(src: &str) -> Table {
    let mut t = Table::new();
    let mut cur: Option<Layout> = None;
    for line in src.lines() {
        let line = line.trim_end();
        if line.is_empty() || line.starts_with('#') { continue; }
        let w: Vec<&str> = line.split_whitespace().collect();
        if w[0] == "struct" {
            if let Some(l) = cur.take() { t.insert(l.name.clone(), l); }
            let ctrl = if w.len() >= 5 && w[2] == "cmd" { Some((u8::from_str_radix(w[3], 16).unwrap(), u8::from_str_radix(w[4], 16).unwrap())) } else { None };
            cur = Some(Layout { name: w[1].to_string(), ctrl, fields: vec![] });
        } else {
            let card = match w[1] { "one" => Card::One, "opt" => Card::Opt, "vec" => Card::Vec, x => panic!("{x}") };
            let tag = if w[2] == "-" { None } else { Some(u16::from_str_radix(w[2], 16).unwrap()) };
            let len = match w[3] { "none" => Len::None, "llv" => Len::Llv, "lllv" => Len::Lllv, "tlv" => Len::Tlv, "temp" => Len::Temp,
                x if x.starts_with("fixed") => Len::Fixed(x[5..].parse().unwrap()), x => panic!("{x}") };
            let e = w[4];
            let enc = if let Some(s) = e.strip_prefix("struct:") { Enc::Struct(s.to_string()) }
                else if let Some(n) = e.strip_prefix("le") { Enc::Le(n.parse().unwrap()) }
                else if let Some(n) = e.strip_prefix("be") { Enc::Be(n.parse().unwrap()) }
                else if let Some(n) = e.strip_prefix("bcd") { Enc::Bcd(n.parse().unwrap()) }
                else { match e { "hex" => Enc::Hex, "cp437" => Enc::Cp437, "utf8" => Enc::Utf8, "bytes" => Enc::Bytes, "receiptno" => Enc::ReceiptNo, "datetime" => Enc::DateTime, x => panic!("{x}") } };
            cur.as_mut().unwrap().fields.push(Field { name: w[0].to_string(), card, tag, len, enc });
        }
    }
    if let Some(l) = cur.take() { t.insert(l.name.clone(), l); }
    t
}

// ---------- CP437 (Unicode consortium mapping; 0x00-0x7f identity) ----------
const CP437_HIGH: &str = "ÇüéâäàåçêëèïîìÄÅÉæÆôöòûùÿÖÜ¢£¥₧ƒáíóúñÑªº¿⌐¬½¼¡«»░▒▓│┤╡╢╖╕╣║╗╝╜╛┐└┴┬├─┼╞╟╚╔╩╦╠═╬╧╨╤╥╙╘╒╓╫╪┘┌█▄▌▐▀αßΓπΣσµτΦΘΩδ∞φε∩≡±≥≤⌠⌡÷≈°∙·√ⁿ²■\u{a0}";
pub fn cp437_char(b: u8) -> char { if b < 0x80 { b as char } else { CP437_HIGH.chars().nth((b - 0x80) as usize).unwrap() } }
pub fn cp437_byte(c: char) -> Option<u8> { if (c as u32) < 0x80 { Some(c as u8) } else { CP437_HIGH.chars().position(|x| x == c).map(|p| (p + 0x80) as u8) } }

// ---------- primitive encoders ----------
pub fn tag_bytes(t: u16) -> Vec<u8> { if t >> 8 == 0x1f || t >> 8 == 0xff { t.to_be_bytes().to_vec() } else { assert!(t < 0x100 && t != 0x1f && t != 0xff, "unrepresentable tag"); vec![t as u8] } }
pub fn bcd_digits(mut v: u64) -> Vec<u8> { // minimal, msd first, packed, leading 0 nibble if odd
    let mut d = vec![]; while v > 0 { d.push((v % 10) as u8); v /= 10; } if d.len() % 2 == 1 { d.push(0); } d.reverse();
    d.chunks(2).map(|c| c[0] << 4 | c[1]).collect()
}
fn len_prefix(len: &Len, n: usize) -> Result<Vec<u8>, String> {
    Ok(match len {
        Len::None | Len::Temp => vec![],
        Len::Fixed(w) => { if n > *w { return Err(format!("payload {n} wider than fixed {w}")); } vec![0; w - n] }
        Len::Llv => { if n > 99 { return Err("llv>99".into()); } vec![0xf0 | (n / 10) as u8, 0xf0 | (n % 10) as u8] }
        Len::Lllv => { if n > 999 { return Err("lllv>999".into()); } vec![0xf0 | (n / 100) as u8, 0xf0 | (n / 10 % 10) as u8, 0xf0 | (n % 10) as u8] }
        Len::Tlv => match n { 0..=127 => vec![n as u8], 128..=255 => vec![0x81, n as u8], 256..=65535 => vec![0x82, (n >> 8) as u8, n as u8], _ => return Err("tlv>65535".into()) },
    })
}

pub fn enc_payload(t: &Table, enc: &Enc, v: &Val) -> Result<Vec<u8>, String> {
    Ok(match (enc, v) {
        (Enc::Le(b), Val::U(x)) => { check_width(*x, *b)?; x.to_le_bytes()[..(*b / 8) as usize].to_vec() }
        (Enc::Be(b), Val::U(x)) => { check_width(*x, *b)?; x.to_be_bytes()[8 - (*b / 8) as usize..].to_vec() }
        (Enc::Bcd(b), Val::U(x)) => { check_width(*x, *b)?; bcd_digits(*x) }
        (Enc::ReceiptNo, Val::U(x)) => if *x == 0xffff { vec![0xff, 0xff] } else { bcd_digits(*x) },
        (Enc::Hex, Val::S(s)) => { if s.len() % 2 != 0 { return Err("odd hex".into()); } (0..s.len() / 2).map(|i| u8::from_str_radix(&s[2 * i..2 * i + 2], 16).map_err(|e| e.to_string())).collect::<Result<_, _>>()? }
        (Enc::Cp437, Val::S(s)) => s.chars().map(|c| cp437_byte(c).ok_or("not cp437".to_string())).collect::<Result<_, _>>()?,
        (Enc::Utf8, Val::S(s)) => s.as_bytes().to_vec(),
        (Enc::Bytes, Val::B(b)) => b.clone(),
        (Enc::DateTime, Val::Dt(y, mo, d, h, mi, s)) => {
            let date = bcd_digits((*y as u64) * 10000 + (*mo as u64) * 100 + *d as u64);
            let time = bcd_digits((*h as u64) * 10000 + (*mi as u64) * 100 + *s as u64);
            let mut o = vec![0x1f, 0x0e, 4]; o.extend(vec![0; 4 - date.len()]); o.extend(date);
            o.extend([0x1f, 0x0f, 3]); o.extend(vec![0; 3 - time.len()]); o.extend(time); o
        }
        (Enc::Struct(n), Val::St(_, _)) => enc_struct_body(t, &t[n], v)?,
        (e, v) => return Err(format!("type mismatch {e:?} {v:?}")),
    })
}
fn check_width(x: u64, bits: u32) -> Result<(), String> { if bits < 64 && x >> bits != 0 { Err("int too wide".into()) } else { Ok(()) } }

fn enc_one(t: &Table, f: &Field, v: &Val) -> Result<Vec<u8>, String> {
    // the empty binary payload is not representable: emits nothing (documented exclusion)
    if f.enc == Enc::Bytes { if let Val::B(b) = v { if b.is_empty() { return Ok(vec![]); } } }
    let p = enc_payload(t, &f.enc, v)?;
    let mut o = f.tag.map(tag_bytes).unwrap_or_default();
    o.extend(len_prefix(&f.len, p.len())?);
    o.extend(p);
    Ok(o)
}
/// encoded groups, one per field (concatenate for the struct body)
pub fn enc_groups(t: &Table, l: &Layout, v: &Val) -> Result<Vec<Vec<u8>>, String> {
    let Val::St(_, fs) = v else { return Err("not a struct".into()) };
    if fs.len() != l.fields.len() { return Err("field count".into()); }
    let mut gs = vec![];
    for (f, (n, fv)) in l.fields.iter().zip(fs) {
        assert_eq!(&f.name, n);
        gs.push(match (f.card, fv) {
            (Card::One, v) => enc_one(t, f, v)?,
            (Card::Opt, Val::None) => vec![],
            (Card::Opt, Val::Some(b)) => enc_one(t, f, b)?,
            (Card::Vec, Val::List(xs)) => { let mut o = vec![]; for x in xs { o.extend(enc_one(t, f, x)?); } o }
            (c, v) => return Err(format!("card mismatch {c:?} {v:?}")),
        });
    }
    Ok(gs)
}
pub fn enc_struct_body(t: &Table, l: &Layout, v: &Val) -> Result<Vec<u8>, String> { Ok(enc_groups(t, l, v)?.concat()) }
pub fn apdu(class: u8, instr: u8, body: &[u8]) -> Result<Vec<u8>, String> {
    let mut o = vec![class, instr];
    if body.len() < 0xff { o.push(body.len() as u8) } else if body.len() <= 0xffff { o.push(0xff); o.extend((body.len() as u16).to_le_bytes()); } else { return Err("apdu>65535".into()); }
    o.extend(body); Ok(o)
}
/// top-level encoding: APDU for commands, bare body otherwise.
pub fn encode(t: &Table, l: &Layout, v: &Val) -> Result<Vec<u8>, String> {
    let body = enc_struct_body(t, l, v)?;
    match l.ctrl { Some((c, i)) => apdu(c, i, &body), None => Ok(body) }
}

// ---------- reference decoder ----------
#[derive(Debug, Clone, PartialEq)]
pub enum DErr { Incomplete, WrongTag(u16), Duplicate(u16), Missing(Vec<u16>), Bad(String) }
type DR<'a, T> = Result<(T, &'a [u8]), DErr>;

pub fn read_tag(b: &[u8]) -> DR<u16> {
    let Some(&f) = b.first() else { return Err(DErr::Incomplete) };
    if f == 0x1f || f == 0xff { if b.len() < 2 { return Err(DErr::Incomplete); } Ok((u16::from_be_bytes([b[0], b[1]]), &b[2..])) } else { Ok((f as u16, &b[1..])) }
}
fn read_len<'a>(len: &Len, b: &'a [u8]) -> DR<'a, usize> {
    match len {
        Len::None => Ok((b.len(), b)),
        Len::Temp => if b.len() < 3 { Err(DErr::Incomplete) } else { Ok((b.len().min(4), b)) },
        Len::Fixed(n) => if b.len() < *n { Err(DErr::Incomplete) } else { Ok((*n, b)) },
        Len::Llv | Len::Lllv => { let k = if *len == Len::Llv { 2 } else { 3 }; if b.len() < k { return Err(DErr::Incomplete); }
            let mut n = 0; for d in &b[..k] { n = n * 10 + (d & 0xf) as usize; } Ok((n, &b[k..])) }
        Len::Tlv => match b.first() { None => Err(DErr::Incomplete), Some(&d) if d < 0x80 => Ok((d as usize, &b[1..])),
            Some(0x81) => if b.len() < 2 { Err(DErr::Incomplete) } else { Ok((b[1] as usize, &b[2..])) },
            Some(0x82) => if b.len() < 3 { Err(DErr::Incomplete) } else { Ok((u16::from_be_bytes([b[1], b[2]]) as usize, &b[3..])) },
            _ => Err(DErr::Bad("tlv length form".into())) },
    }
}
fn bcd_value(p: &[u8], bits: u32) -> Result<u64, DErr> {
    let mut v: u128 = 0;
    for d in p { let (h, l) = ((d >> 4) as u128, (d & 0xf) as u128);
        v = if l != 0xf { v.checked_mul(100).and_then(|v| v.checked_add(h * 10 + l)) } else { v.checked_mul(10).and_then(|v| v.checked_add(h)) }.ok_or(DErr::Bad("bcd overflow".into()))?;
        let max: u128 = if bits >= 64 { u64::MAX as u128 } else { (1u128 << bits) - 1 };
        if v > max { return Err(DErr::Bad("bcd overflow".into())); } }
    Ok(v as u64)
}
fn days_in_month(y: i32, m: u32) -> u32 { match m { 1 | 3 | 5 | 7 | 8 | 10 | 12 => 31, 4 | 6 | 9 | 11 => 30, 2 => if (y % 4 == 0 && y % 100 != 0) || y % 400 == 0 { 29 } else { 28 }, _ => 0 } }
fn dec_payload<'a>(t: &Table, enc: &Enc, p: &'a [u8]) -> DR<'a, Val> {
    match enc {
        Enc::Le(b) | Enc::Be(b) => { let w = (*b / 8) as usize; if p.len() < w { return Err(DErr::Incomplete); }
            let mut x = 0u64; for i in 0..w { let byte = if matches!(enc, Enc::Le(_)) { p[w - 1 - i] } else { p[i] }; x = x << 8 | byte as u64; } Ok((Val::U(x), &p[w..])) }
        Enc::Bcd(b) => Ok((Val::U(bcd_value(p, *b)?), &[])),
        Enc::ReceiptNo => { if p.len() < 2 { return Err(DErr::Incomplete); } if p[..2] == [0xff, 0xff] { Ok((Val::U(0xffff), &p[2..])) } else { Ok((Val::U(bcd_value(&p[..2], 64)?), &p[2..])) } }
        Enc::Hex => Ok((Val::S(p.iter().map(|b| format!("{b:02x}")).collect()), &[])),
        Enc::Cp437 => { let s: String = p.iter().map(|b| cp437_char(*b)).collect(); Ok((Val::S(s.trim_end_matches('\0').to_string()), &[])) }
        Enc::Utf8 => Ok((Val::S(String::from_utf8(p.to_vec()).map_err(|_| DErr::Bad("utf8".into()))?), &[])),
        Enc::Bytes => Ok((Val::B(p.to_vec()), &[])),
        Enc::DateTime => {
            let (mut date, mut time, mut b) = (None, None, p);
            while !b.is_empty() { let (tag, after) = read_tag(b)?; if tag != 0x1f0e && tag != 0x1f0f { break; }
                let (n, q) = read_len(&Len::Tlv, after)?; if n > q.len() { return Err(DErr::Incomplete); }
                let v = bcd_value(&q[..n], 64)?; let slot = if tag == 0x1f0e { &mut date } else { &mut time };
                if slot.is_some() { return Err(DErr::Duplicate(tag)); } *slot = Some(v); b = &q[n..]; }
            let (Some(d), Some(tm)) = (date, time) else { return Err(DErr::Incomplete) };
            let (y, mo, dd) = ((d / 10000) as i32, (d / 100 % 100) as u32, (d % 100) as u32);
            let (h, mi, s) = ((tm / 10000) as u32, (tm / 100 % 100) as u32, (tm % 100) as u32);
            if tm > 235959 || d > 99991231 || mo == 0 || mo > 12 || dd == 0 || dd > days_in_month(y, mo) || h > 23 || mi > 59 || s > 59 { return Err(DErr::Bad("calendar".into())); }
            Ok((Val::Dt(y, mo, dd, h, mi, s), b))
        }
        Enc::Struct(n) => dec_struct_body(t, &t[n], p),
    }
}
fn dec_one<'a>(t: &Table, f: &Field, mut b: &'a [u8]) -> DR<'a, Val> {
    if let Some(want) = f.tag { let (got, after) = read_tag(b)?; if got != want { return Err(DErr::WrongTag(got)); } b = after; }
    let (n, p) = read_len(&f.len, b)?;
    if n > p.len() { return Err(DErr::Incomplete); }
    let (v, rem) = dec_payload(t, &f.enc, &p[..n])?;
    Ok((v, &p[n - rem.len()..]))
}
pub fn dec_struct_body<'a>(t: &Table, l: &Layout, mut b: &'a [u8]) -> DR<'a, Val> {
    let mut out: Vec<(String, Val)> = l.fields.iter().map(|f| (f.name.clone(), match f.card { Card::One => Val::None, Card::Opt => Val::None, Card::Vec => Val::List(vec![]) })).collect();
    for (i, f) in l.fields.iter().enumerate().filter(|(_, f)| f.tag.is_none()) {
        match f.card {
            Card::One => { let (v, r) = dec_one(t, f, b)?; out[i].1 = v; b = r; }
            Card::Opt => if let Ok((v, r)) = dec_one(t, f, b) { out[i].1 = Val::Some(Box::new(v)); b = r; },
            Card::Vec => { let mut xs = vec![]; while let Ok((v, r)) = dec_one(t, f, b) { if r.len() == b.len() { return Err(DErr::Bad("no progress".into())); } xs.push(v); b = r; } out[i].1 = Val::List(xs); }
        }
    }
    let mut seen = vec![];
    while !b.is_empty() {
        let Ok((tag, _)) = read_tag(b) else { break };
        let Some((i, f)) = l.fields.iter().enumerate().find(|(_, f)| f.tag == Some(tag)) else { break };
        if seen.contains(&tag) { return Err(DErr::Duplicate(tag)); }
        seen.push(tag);
        match f.card {
            Card::One => { let (v, r) = dec_one(t, f, b)?; out[i].1 = v; b = r; }
            Card::Opt => { let (v, r) = dec_one(t, f, b)?; out[i].1 = Val::Some(Box::new(v)); b = r; }
            Card::Vec => { let mut xs = vec![]; while let Ok((v, r)) = dec_one(t, f, b) { xs.push(v); b = r; } if xs.is_empty() { out[i].1 = Val::List(xs); break; } out[i].1 = Val::List(xs); }
        }
    }
    let mut missing: Vec<u16> = l.fields.iter().filter(|f| f.card == Card::One && f.tag.is_some() && !seen.contains(&f.tag.unwrap())).map(|f| f.tag.unwrap()).collect();
    if !missing.is_empty() { missing.sort(); return Err(DErr::Missing(missing)); }
    Ok((Val::St(l.name.clone(), out), b))
}
pub fn decode<'a>(t: &Table, l: &Layout, b: &'a [u8]) -> DR<'a, Val> {
    match l.ctrl {
        None => dec_struct_body(t, l, b),
        Some((c, i)) => { if b.len() < 2 { return Err(DErr::Incomplete); } let got = u16::from_be_bytes([b[0], b[1]]); if (b[0], b[1]) != (c, i) { return Err(DErr::WrongTag(got)); }
            let b = &b[2..]; let Some(&l0) = b.first() else { return Err(DErr::Incomplete) };
            let (n, p) = if l0 == 0xff { if b.len() < 3 { return Err(DErr::Incomplete); } (u16::from_le_bytes([b[1], b[2]]) as usize, &b[3..]) } else { (l0 as usize, &b[1..]) };
            if n > p.len() { return Err(DErr::Incomplete); }
            let (v, rem) = dec_struct_body(t, l, &p[..n])?; Ok((v, &p[n - rem.len()..])) }
    }
}
pub fn is_canonical(t: &Table, l: &Layout, v: &Val) -> bool {
    match encode(t, l, v) { Ok(b) => matches!(decode(t, l, &b), Ok((v2, r)) if r.is_empty() && &v2 == v), Err(_) => false }
}

// ---------- Debug rendering (must equal `{:?}` of the real value) ----------
pub fn render(v: &Val) -> String {
    match v {
        Val::U(x) => x.to_string(),
        Val::S(s) => format!("{s:?}"),
        Val::B(b) => format!("{b:?}"),
        Val::Dt(y, mo, d, h, mi, s) => format!("{:?}", chrono::NaiveDate::from_ymd_opt(*y, *mo, *d).unwrap().and_hms_opt(*h, *mi, *s).unwrap()),
        Val::None => "None".into(),
        Val::Some(b) => format!("Some({})", render(b)),
        Val::List(xs) => format!("[{}]", xs.iter().map(render).collect::<Vec<_>>().join(", ")),
        Val::St(n, fs) => { let n = n.rsplit('.').next().unwrap();
            if fs.is_empty() { n.to_string() } else { format!("{n} {{ {} }}", fs.iter().map(|(k, v)| format!("{k}: {}", render(v))).collect::<Vec<_>>().join(", ")) } }
    }
}
