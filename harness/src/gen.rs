//! Generators of canonical values (DESIGN.md 5.1/5.4), built recursively from the layout table.
use crate::refc::*;
use proptest::collection::vec;
use proptest::prelude::*;
use std::sync::Arc;

#[derive(Clone, Copy, Debug)]
pub struct GenCfg {
    pub vec_max: usize,
    /// cap for text / hex / blob payloads whose container allows more
    pub text_max: usize,
    pub blob_max: usize,
}
impl GenCfg {
    pub fn quick() -> Self {
        GenCfg { vec_max: 4, text_max: 300, blob_max: 600 }
    }
    pub fn thorough() -> Self {
        GenCfg { vec_max: 40, text_max: 3000, blob_max: 60000 }
    }
    pub fn small() -> Self {
        GenCfg { vec_max: 2, text_max: 12, blob_max: 12 }
    }
}

pub fn pow10(k: u32) -> u128 {
    10u128.pow(k)
}

/// Integers 0..=max biased to boundaries: 0, max, 10^k-1, 10^k, 2^k-1, 2^k, small, uniform.
pub fn int_strategy(max: u64) -> BoxedStrategy<u64> {
    let m = max;
    prop_oneof![
        2 => Just(0u64),
        2 => Just(m),
        3 => (0u32..20, any::<bool>()).prop_map(move |(k, minus)| { let p = pow10(k); let v = if minus { p - 1 } else { p }; v.min(m as u128) as u64 }),
        2 => (0u32..64, any::<bool>()).prop_map(move |(k, minus)| { let p = 1u128 << k; let v = if minus { p - 1 } else { p }; v.min(m as u128) as u64 }),
        3 => (0u64..=100).prop_map(move |v| v.min(m)),
        6 => (0u64..=m),
    ]
    .boxed()
}

/// Lengths 0..=max biased to the switch points of the length-prefix styles.
pub fn len_strategy(max: usize) -> BoxedStrategy<usize> {
    let pts: Vec<usize> = [0usize, 1, 2, 7, 8, 98, 99, 100, 126, 127, 128, 129, 253, 254, 255, 256, 257, 998, 999, 1000, 65534, 65535]
        .iter()
        .copied()
        .filter(|p| *p <= max)
        .collect();
    prop_oneof![
        4 => (0usize..=max.min(24)),
        2 => proptest::sample::select(pts),
        1 => (0usize..=max),
    ]
    .boxed()
}

fn cp437_text(n: usize) -> BoxedStrategy<String> {
    vec(prop_oneof![2 => 0x20u8..0x7f, 1 => any::<u8>()], n)
        .prop_map(|mut b| {
            if let Some(l) = b.last_mut() {
                if *l == 0 {
                    *l = b'x';
                }
            }
            b.iter().map(|x| cp437_char(*x)).collect::<String>()
        })
        .boxed()
}

fn max_payload(len: &Len, cap: usize) -> usize {
    match len {
        Len::Fixed(n) => *n,
        Len::Llv => 99,
        Len::Lllv => 999.min(cap.max(999)),
        Len::Tlv | Len::None => cap,
        Len::Temp => 4,
    }
}

pub fn payload_strategy(t: &Arc<Table>, f: &Field, cfg: GenCfg, depth: u32) -> BoxedStrategy<Val> {
    match &f.enc {
        Enc::Le(b) | Enc::Be(b) => {
            let max = if *b >= 64 { u64::MAX } else { (1u64 << b) - 1 };
            int_strategy(max).prop_map(Val::U).boxed()
        }
        Enc::Bcd(b) => {
            let tmax: u128 = if *b >= 64 { u64::MAX as u128 } else { (1u128 << b) - 1 };
            let bytes = match f.len {
                Len::Fixed(n) => n,
                Len::Llv => 99,
                _ => 20,
            };
            let dmax = if bytes >= 10 { u64::MAX as u128 } else { pow10(2 * bytes as u32) - 1 };
            let lim = tmax.min(dmax) as u64;
            // values whose BCD image starts like a tag + length of a neighbouring field (06 00 = an empty TLV container,
            // 22 f0.., 27 00, 49 09 ..): a decoder must take them as the number they are
            let width = bytes.min(9) as u32;
            let tag_like = (proptest::sample::select(vec![6u64, 22, 27, 29, 49, 60, 87, 4, 19]), prop_oneof![Just(0u64), Just(1), 0u64..100]).prop_map(move |(tag, low)| {
                let v = tag as u128 * pow10(2 * width.saturating_sub(1)) + low as u128;
                v.min(lim as u128) as u64
            });
            prop_oneof![9 => int_strategy(lim), 1 => tag_like].prop_map(Val::U).boxed()
        }
        Enc::ReceiptNo => prop_oneof![1 => Just(0xffffu64), 1 => Just(0u64), 1 => Just(9999u64), 3 => 0u64..=9999].prop_map(Val::U).boxed(),
        Enc::Hex => {
            let lens = match f.len {
                Len::Fixed(n) => Just(n).boxed(),
                _ => len_strategy(max_payload(&f.len, cfg.text_max)),
            };
            lens.prop_flat_map(|n| vec(any::<u8>(), n)).prop_map(|b| Val::S(b.iter().map(|x| format!("{x:02x}")).collect())).boxed()
        }
        Enc::Cp437 => {
            let lens = match f.len {
                // full width, or empty (all fill bytes: decodes to the empty text, so it is inside the canonical domain)
                Len::Fixed(n) => prop_oneof![5 => Just(n), 1 => Just(0usize)].boxed(),
                Len::Temp => (3usize..=4).boxed(),
                _ => len_strategy(max_payload(&f.len, cfg.text_max)),
            };
            if f.len == Len::Temp {
                // half of the temperatures look like temperatures: digits, sign, decimal point, unit, blank
                let temp_char = proptest::sample::select("0123456789.-+ C\u{b0}".chars().collect::<Vec<char>>());
                return prop_oneof![
                    1 => lens.clone().prop_flat_map(cp437_text).prop_map(Val::S),
                    1 => lens.prop_flat_map(move |n| vec(temp_char.clone(), n)).prop_map(|cs| Val::S(cs.into_iter().collect())),
                ]
                .boxed();
            }
            lens.prop_flat_map(cp437_text).prop_map(Val::S).boxed()
        }
        Enc::Utf8 => {
            // length limit is in bytes; characters of 1..4 bytes
            let maxb = max_payload(&f.len, cfg.text_max);
            let ch = prop_oneof![4 => (0x20u32..0x7f), 1 => (0xa0u32..0x800), 1 => (0x800u32..0xd800), 1 => (0x10000u32..0x10ffff), 1 => Just(0u32)].prop_map(|c| char::from_u32(c).unwrap_or('?'));
            len_strategy(maxb.min(400))
                .prop_flat_map(move |n| vec(ch.clone(), n))
                .prop_map(move |cs| {
                    let mut s = String::new();
                    for c in cs {
                        if s.len() + c.len_utf8() > maxb {
                            break;
                        }
                        s.push(c);
                    }
                    Val::S(s)
                })
                .boxed()
        }
        Enc::Bytes => {
            let small = len_strategy(cfg.blob_max.min(400)).prop_map(|n| n.max(1));
            let cap = cfg.blob_max;
            let lens = prop_oneof![6 => small, 1 => (1usize..=cap)];
            lens.prop_flat_map(|n| (any::<u8>(), any::<u8>(), Just(n)))
                .prop_map(|(a, s, n)| Val::B((0..n).map(|i| a.wrapping_add((i as u8).wrapping_mul(s | 1))).collect()))
                .boxed()
        }
        Enc::DateTime => (
            prop_oneof![Just(0i32), Just(9999), Just(2023), 0i32..=9999],
            prop_oneof![1u32..=12, 10u32..=12],
            prop_oneof![Just(1u32), 1u32..=31, 28u32..=31],
            prop_oneof![Just(0u32), Just(23), 0u32..24],
            prop_oneof![Just(0u32), Just(59), 0u32..60],
            prop_oneof![Just(0u32), Just(59), 0u32..60],
        )
            .prop_map(|(y, mo, d, h, mi, s)| {
                let dim = days_in_month_pub(y, mo);
                Val::Dt(y, mo, d.min(dim), h, mi, s)
            })
            .boxed(),
        Enc::Struct(n) => strategy_depth(t, n, cfg, depth + 1),
    }
}

pub fn days_in_month_pub(y: i32, m: u32) -> u32 {
    match m {
        1 | 3 | 5 | 7 | 8 | 10 | 12 => 31,
        4 | 6 | 9 | 11 => 30,
        2 => {
            if (y % 4 == 0 && y % 100 != 0) || y % 400 == 0 {
                29
            } else {
                28
            }
        }
        _ => 0,
    }
}

/// Strategy of (mostly) canonical values of a layout. Positional optionals are constructed so that the value is
/// canonical: a rest-of-body BCD optional is always present; when a positional optional is absent, every later
/// optional / repeated field is absent too (nothing can be mistaken for the missing field).
pub fn strategy_for(t: &Arc<Table>, name: &str, cfg: GenCfg) -> BoxedStrategy<Val> {
    strategy_depth(t, name, cfg, 0)
}

fn strategy_depth(t: &Arc<Table>, name: &str, cfg: GenCfg, depth: u32) -> BoxedStrategy<Val> {
    let l = t[name].clone();
    let cfg = if depth >= 2 { GenCfg { vec_max: cfg.vec_max.min(3), ..cfg } } else { cfg };
    let mut fields: Vec<BoxedStrategy<Val>> = vec![];
    for f in &l.fields {
        let p = payload_strategy(t, f, cfg, depth);
        let s: BoxedStrategy<Val> = match f.card {
            Card::One => p,
            Card::Opt => {
                if f.tag.is_none() && f.len == Len::None && matches!(f.enc, Enc::Bcd(_)) {
                    p.prop_map(|v| Val::Some(Box::new(v))).boxed()
                } else {
                    // shrinks towards absent
                    prop_oneof![1 => Just(Val::None), 2 => p.prop_map(|v| Val::Some(Box::new(v)))].boxed()
                }
            }
            Card::Vec => {
                let vm = cfg.vec_max;
                prop_oneof![3 => vec(p.clone(), 0..=vm.min(4)), 1 => vec(p, 0..=vm)].prop_map(Val::List).boxed()
            }
        };
        fields.push(s);
    }
    let names: Vec<String> = l.fields.iter().map(|f| f.name.clone()).collect();
    let lname = l.name.clone();
    let posopt: Vec<usize> = l.fields.iter().enumerate().filter(|(_, f)| f.tag.is_none() && f.card == Card::Opt).map(|(i, _)| i).collect();
    let cards: Vec<Card> = l.fields.iter().map(|f| f.card).collect();
    fields
        .prop_map(move |mut vals| {
            for &i in &posopt {
                if vals[i] == Val::None {
                    for j in i + 1..vals.len() {
                        match cards[j] {
                            Card::Opt => vals[j] = Val::None,
                            Card::Vec => vals[j] = Val::List(vec![]),
                            Card::One => {}
                        }
                    }
                }
            }
            Val::St(lname.clone(), names.iter().cloned().zip(vals).collect())
        })
        .boxed()
}

/// "Size pump": resize one text/hex/blob leaf so that the encoded length of `v` becomes exactly `target`
/// (APDU body for commands, whole encoding otherwise). Returns None when no pumpable leaf exists or the target is unreachable.
pub fn pump(t: &Table, l: &Layout, v: &Val, target: usize) -> Option<Val> {
    let mut v = v.clone();
    for _ in 0..6 {
        let cur = body_len(t, l, &v)?;
        if cur == target {
            return Some(v);
        }
        let delta = target as i64 - cur as i64;
        if !resize_first_leaf(t, l, &mut v, delta) {
            return None;
        }
    }
    if body_len(t, l, &v)? == target {
        Some(v)
    } else {
        None
    }
}
pub fn body_len(t: &Table, l: &Layout, v: &Val) -> Option<usize> {
    enc_struct_body(t, l, v).ok().map(|b| b.len())
}
fn resize_leaf(f: &Field, v: &mut Val, delta: i64) -> bool {
    let cap = match f.len {
        Len::Llv => 99,
        Len::Lllv => 999,
        Len::Tlv | Len::None => 65535,
        _ => return false,
    };
    match (&f.enc, v) {
        (Enc::Cp437, Val::S(s)) => {
            let n = s.chars().count() as i64 + delta;
            if n < 0 || n > cap {
                return false;
            }
            let mut cs: Vec<char> = s.chars().collect();
            cs.resize(n as usize, 'p');
            if let Some(l) = cs.last_mut() {
                if *l == '\0' {
                    *l = 'p';
                }
            }
            *s = cs.into_iter().collect();
            true
        }
        (Enc::Hex, Val::S(s)) => {
            let n = (s.len() / 2) as i64 + delta;
            if n < 0 || n > cap {
                return false;
            }
            let mut b: Vec<u8> = s.bytes().collect();
            b.resize(2 * n as usize, b'a');
            *s = String::from_utf8(b).unwrap();
            true
        }
        (Enc::Bytes, Val::B(b)) => {
            let n = b.len() as i64 + delta;
            if n < 1 || n > cap {
                return false;
            }
            b.resize(n as usize, 0x5a);
            true
        }
        _ => false,
    }
}
fn resize_first_leaf(t: &Table, l: &Layout, v: &mut Val, delta: i64) -> bool {
    let Val::St(_, fs) = v else { return false };
    // prefer the last pumpable leaf (greedy tail fields are last)
    for (f, (_, fv)) in l.fields.iter().zip(fs.iter_mut()).rev() {
        let inner: Option<&mut Val> = match fv {
            Val::Some(b) => Some(b.as_mut()),
            Val::List(xs) => xs.last_mut(),
            Val::None => None,
            other => {
                if f.card == Card::One {
                    Some(other)
                } else {
                    None
                }
            }
        };
        let Some(inner) = inner else { continue };
        if let Enc::Struct(n) = &f.enc {
            if resize_first_leaf(t, &t[n], inner, delta) {
                return true;
            }
        } else if resize_leaf(f, inner, delta) {
            return true;
        }
    }
    false
}

/// Classification used by the non-trivial rules of C01/C03: number of present fields, nested containers, switch-point lengths.
pub struct Shape {
    pub present: usize,
    pub nested: bool,
    pub vec_elems: usize,
}
pub fn shape(v: &Val) -> Shape {
    let mut s = Shape { present: 0, nested: false, vec_elems: 0 };
    if let Val::St(_, fs) = v {
        for (_, fv) in fs {
            match fv {
                Val::None => {}
                Val::List(xs) => {
                    if !xs.is_empty() {
                        s.present += 1;
                        s.vec_elems += xs.len();
                        if xs.iter().any(|x| matches!(x, Val::St(..))) {
                            s.nested = true;
                        }
                    }
                }
                Val::Some(b) => {
                    s.present += 1;
                    if matches!(**b, Val::St(..)) {
                        s.nested = true;
                    }
                }
                Val::St(..) => {
                    s.present += 1;
                    s.nested = true;
                }
                _ => s.present += 1,
            }
        }
    }
    s
}

/// Structured decoding of raw bytes into a (mostly canonical) value of a layout: for coverage-guided targets
/// (hand-written `arbitrary`-style decoder; every choice consumes input bytes, exhausted input yields the smallest value).
pub fn value_from_bytes(t: &Table, name: &str, data: &mut &[u8], depth: u32) -> Val {
    fn take(data: &mut &[u8]) -> u8 {
        match data.split_first() {
            Some((b, rest)) => {
                *data = rest;
                *b
            }
            None => 0,
        }
    }
    fn take_u64(data: &mut &[u8]) -> u64 {
        let n = (take(data) % 9) as usize;
        let mut v = 0u64;
        for _ in 0..n {
            v = v << 8 | take(data) as u64;
        }
        v
    }
    fn payload(t: &Table, f: &Field, data: &mut &[u8], depth: u32) -> Val {
        let cap = match f.len {
            Len::Fixed(n) => n,
            Len::Llv => 99,
            Len::Temp => 4,
            _ => 40,
        };
        match &f.enc {
            Enc::Le(b) | Enc::Be(b) => {
                let max = if *b >= 64 { u64::MAX } else { (1u64 << b) - 1 };
                Val::U(take_u64(data) & max)
            }
            Enc::Bcd(b) => {
                let tmax: u128 = if *b >= 64 { u64::MAX as u128 } else { (1u128 << b) - 1 };
                let bytes = match f.len {
                    Len::Fixed(n) => n,
                    _ => 10,
                };
                let dmax = if bytes >= 10 { u64::MAX as u128 } else { pow10(2 * bytes as u32) - 1 };
                let m = tmax.min(dmax) as u64;
                let v = take_u64(data);
                Val::U(if m == u64::MAX { v } else { v % (m + 1) })
            }
            Enc::ReceiptNo => {
                let v = take_u64(data);
                Val::U(if v % 7 == 0 { 0xffff } else { v % 10000 })
            }
            Enc::Hex => {
                let n = match f.len {
                    Len::Fixed(n) => n,
                    _ => (take(data) as usize) % (cap + 1),
                };
                Val::S((0..n).map(|_| format!("{:02x}", take(data))).collect())
            }
            Enc::Cp437 => {
                let n = match f.len {
                    Len::Fixed(n) => n,
                    Len::Temp => 3 + (take(data) as usize % 2),
                    _ => (take(data) as usize) % (cap + 1),
                };
                let mut b: Vec<u8> = (0..n).map(|_| take(data)).collect();
                if let Some(l) = b.last_mut() {
                    if *l == 0 {
                        *l = b'x';
                    }
                }
                Val::S(b.iter().map(|x| cp437_char(*x)).collect())
            }
            Enc::Utf8 => {
                let n = (take(data) as usize) % 20;
                Val::S((0..n).map(|_| (b'a' + take(data) % 26) as char).collect())
            }
            Enc::Bytes => {
                let n = 1 + (take(data) as usize) % 40;
                Val::B((0..n).map(|_| take(data)).collect())
            }
            Enc::DateTime => {
                let y = (take_u64(data) % 10000) as i32;
                let mo = 1 + (take(data) % 12) as u32;
                let d = 1 + (take(data) as u32 % days_in_month_pub(y, mo));
                Val::Dt(y, mo, d, (take(data) % 24) as u32, (take(data) % 60) as u32, (take(data) % 60) as u32)
            }
            Enc::Struct(n) => value_from_bytes(t, n, data, depth + 1),
        }
    }
    let l = &t[name];
    let mut vals: Vec<(String, Val)> = vec![];
    let mut pos_opt_absent = false;
    for f in &l.fields {
        let v = match f.card {
            Card::One => payload(t, f, data, depth),
            Card::Opt => {
                let always = f.tag.is_none() && f.len == Len::None && matches!(f.enc, Enc::Bcd(_));
                if !always && (pos_opt_absent || depth > 4 || take(data) % 3 == 0) {
                    if f.tag.is_none() {
                        pos_opt_absent = true;
                    }
                    Val::None
                } else {
                    Val::Some(Box::new(payload(t, f, data, depth)))
                }
            }
            Card::Vec => {
                let n = if pos_opt_absent || depth > 4 { 0 } else { (take(data) % 4) as usize };
                Val::List((0..n).map(|_| payload(t, f, data, depth)).collect())
            }
        };
        vals.push((f.name.clone(), v));
    }
    Val::St(l.name.clone(), vals)
}
