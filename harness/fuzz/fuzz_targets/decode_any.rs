#![no_main]
//! C02 layer 4: coverage-guided decoding. First input byte selects the decoder (55 types + 17 reply parsers),
//! the rest is the packet. The totality oracle of props/c02.rs runs inside the target; violations whose signature
//! is listed `open:` in KNOWN_FINDINGS.txt are tolerated so that a known crash does not end the campaign.
use libfuzzer_sys::fuzz_target;
use std::sync::OnceLock;
use zvtverif::engine::Findings;
use zvtverif::props::c02::{check_decode, Decoders};

static D: OnceLock<(Decoders, Findings)> = OnceLock::new();

fuzz_target!(|data: &[u8]| {
    let (d, known) = D.get_or_init(|| {
        zvtverif::engine::silence_panics();
        (Decoders::new(), Findings::load())
    });
    if data.is_empty() {
        return;
    }
    let idx = data[0] as usize % d.n();
    if let Err(v) = check_decode(d, idx, &data[1..], true) {
        if known.lookup("C02", &v.sig).is_none() {
            eprintln!("FUZZ-VIOLATION {}\n{}", v.sig, v.detail);
            std::process::abort();
        }
    }
});
