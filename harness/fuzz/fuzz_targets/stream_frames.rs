#![no_main]
//! C04: coverage-guided framing. Input bytes -> (chunk schedule, end-of-stream position, packets); oracle of props/c04.rs.
use libfuzzer_sys::fuzz_target;
use zvtverif::props::c04::{check_stream, StreamCase};

fuzz_target!(|data: &[u8]| {
    if data.len() < 4 {
        return;
    }
    let nchunks = (data[0] % 5) as usize;
    let eof_sel = data[1];
    let mut pos = 2;
    let mut chunks = vec![];
    for _ in 0..nchunks {
        if pos >= data.len() {
            break;
        }
        chunks.push(1 + (data[pos] % 17) as usize);
        pos += 1;
    }
    // packets: [class][instr][len-selector][body bytes taken from the input]
    let mut packets = vec![];
    while pos + 3 <= data.len() && packets.len() < 5 {
        let (c, i, sel) = (data[pos], data[pos + 1], data[pos + 2]);
        pos += 3;
        let want = match sel % 8 {
            0 => 0usize,
            1 => 254,
            2 => 255,
            3 => 256,
            _ => (sel as usize) % 40,
        };
        let body: Vec<u8> = (0..want).map(|k| data.get(pos + k % 7).copied().unwrap_or(k as u8)).collect();
        pos += want.min(7);
        let mut p = vec![c, i];
        if want < 255 && sel % 16 != 15 {
            p.push(want as u8);
        } else {
            p.push(0xff);
            p.push((want & 0xff) as u8);
            p.push((want >> 8) as u8);
        }
        p.extend(body);
        packets.push(zvtverif::engine::hex(&p));
    }
    if packets.is_empty() {
        return;
    }
    let total: usize = packets.iter().map(|p| p.len() / 2).sum();
    let eof = if eof_sel % 3 == 0 { Some(eof_sel as usize * (total + 1) / 256) } else { None };
    let case = StreamCase { packets, chunks, eof };
    if let Err(v) = check_stream(&case) {
        eprintln!("FUZZ-VIOLATION {}\n{}\n{}", v.sig, v.detail, v.input);
        std::process::abort();
    }
});
