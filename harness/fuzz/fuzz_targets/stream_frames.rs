#![no_main]
//! C04: coverage-guided framing. Input bytes -> (chunk schedule, end-of-stream position, packets); oracle of props/c04.rs.
use libfuzzer_sys::fuzz_target;
use zvtverif::props::c04::{case_from_fuzz, check_stream};

fuzz_target!(|data: &[u8]| {
    let Some(case) = case_from_fuzz(data) else { return };
    if let Err(v) = check_stream(&case) {
        eprintln!("FUZZ-VIOLATION {}\n{}\n{}", v.sig, v.detail, v.input);
        std::process::abort();
    }
});
