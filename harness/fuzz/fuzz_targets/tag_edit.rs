#![no_main]
//! C13: coverage-guided tagged-field edits. Input bytes -> (type with tagged fields, canonical value, edit); oracle of props/c13.rs.
use libfuzzer_sys::fuzz_target;
use std::sync::OnceLock;
use zvtverif::engine::Findings;
use zvtverif::props::c13::{check_fuzz_input, FuzzCtx};

static CTX: OnceLock<(FuzzCtx, Findings)> = OnceLock::new();

fuzz_target!(|data: &[u8]| {
    let (ctx, known) = CTX.get_or_init(|| {
        zvtverif::engine::silence_panics();
        (FuzzCtx::new(), Findings::load())
    });
    if let Err(v) = check_fuzz_input(ctx, data) {
        if known.lookup("C13", &v.sig).is_none() {
            eprintln!("FUZZ-VIOLATION {}\n{}", v.sig, v.detail);
            std::process::abort();
        }
    }
});
