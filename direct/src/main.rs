//! Direct layer of C01 / C03: typed values are CONSTRUCTED from generated values (struct literals, generated from the
//! layout table's field names by tools/mkconstruct.py), serialised by the real encoder and read back - no decode-first
//! bridge. Lives in its own crate so that a change of a packet struct's fields in /repo cannot break the build of the main
//! harness: if this crate does not compile, the owning check notes that the direct layer was skipped.
mod construct_gen;

use serde_json::{json, Value};
use std::sync::Arc;
use zvt::ZvtSerializer;
use zvtverif::engine::*;
use zvtverif::gen::*;
use zvtverif::refc::*;

#[global_allocator]
static ALLOC: zvtverif::alloc::Counting = zvtverif::alloc::Counting;

pub trait FromVal: Sized {
    fn from_val(v: &Val) -> Option<Self>;
}
pub fn field<'a>(fs: &'a [(String, Val)], name: &str) -> Option<&'a Val> {
    fs.iter().find(|(n, _)| n == name).map(|(_, v)| v)
}
macro_rules! int_from_val {
    ($($t:ty),*) => {$(
        impl FromVal for $t {
            fn from_val(v: &Val) -> Option<Self> {
                match v {
                    Val::U(x) => <$t>::try_from(*x).ok(),
                    _ => None,
                }
            }
        }
    )*};
}
int_from_val!(u8, u16, u32, u64, usize);
impl FromVal for String {
    fn from_val(v: &Val) -> Option<Self> {
        match v {
            Val::S(s) => Some(s.clone()),
            _ => None,
        }
    }
}
impl FromVal for chrono::NaiveDateTime {
    fn from_val(v: &Val) -> Option<Self> {
        match v {
            Val::Dt(y, mo, d, h, mi, s) => chrono::NaiveDate::from_ymd_opt(*y, *mo, *d)?.and_hms_opt(*h, *mi, *s),
            _ => None,
        }
    }
}
impl<T: FromVal> FromVal for Option<T> {
    fn from_val(v: &Val) -> Option<Self> {
        match v {
            Val::None => Some(None),
            Val::Some(b) => Some(Some(T::from_val(b)?)),
            other => Some(Some(T::from_val(other)?)),
        }
    }
}
impl<T: FromVal> FromVal for Vec<T> {
    fn from_val(v: &Val) -> Option<Self> {
        match v {
            Val::List(xs) => xs.iter().map(T::from_val).collect(),
            Val::B(b) => b.iter().map(|x| T::from_val(&Val::U(*x as u64))).collect(),
            _ => None,
        }
    }
}

pub struct Direct {
    /// bytes the real encoder produced for the constructed value
    pub bytes: Vec<u8>,
    /// reading them back: (Debug of the value, bytes left, equal to the constructed value)
    pub back: Result<(String, usize, bool), String>,
    pub dbg: String,
}
pub struct Entry {
    pub name: &'static str,
    pub run: fn(&Val) -> Option<Direct>,
}
pub fn entry<T>(name: &'static str) -> Entry
where
    T: FromVal + ZvtSerializer + std::fmt::Debug + PartialEq,
    zvt::encoding::Default: zvt::encoding::Encoding<T>,
{
    fn run<T>(v: &Val) -> Option<Direct>
    where
        T: FromVal + ZvtSerializer + std::fmt::Debug + PartialEq,
        zvt::encoding::Default: zvt::encoding::Encoding<T>,
    {
        let x = T::from_val(v)?;
        let bytes = x.zvt_serialize();
        let back = match T::zvt_deserialize(&bytes) {
            Ok((y, rest)) => Ok((format!("{y:?}"), rest.len(), y == x)),
            Err(e) => Err(format!("{e:?}")),
        };
        Some(Direct { bytes, back, dbg: format!("{x:?}") })
    }
    Entry { name, run: run::<T> }
}

/// Verdicts for one (type, canonical value): C01 = the constructed value comes back; C03 = the encoder's bytes are the layout's.
fn check(prop: &str, t: &Table, e: &Entry, v: &Val) -> Result<&'static str, Violation> {
    let l = &t[e.name];
    let input = json!({"type": e.name, "value": v});
    let want = render(v);
    let ty = e.name;
    let d = match guard(|| (e.run)(v)) {
        Err(p) => return Err(Violation::new("direct", format!("{prop} type={ty} kind=panic"), format!("serialising / deserialising the constructed value {} panicked: {p}", clip(&want, 400)), input)),
        // the constructor does not fit the value (harness side): no verdict
        Ok(None) => return Ok("no-verdict:value-not-constructible"),
        Ok(Some(d)) => d,
    };
    if d.dbg != want {
        // constructor and renderer disagree (harness side): no verdict
        return Ok("no-verdict:constructed-value-renders-differently");
    }
    if prop == "C03" {
        let reference = encode(t, l, v).expect("canonical");
        if d.bytes != reference {
            return Err(Violation::new("direct", format!("C03 type={ty} kind=encoder-differs-from-layout"), format!("value {}\n  encoder:      {}\n  layout table: {}", clip(&want, 400), clip(&hex(&d.bytes), 600), clip(&hex(&reference), 600)), input));
        }
        return Ok("checked");
    }
    match &d.back {
        Ok((dbg, 0, true)) if *dbg == want => Ok("checked"),
        Ok((dbg, rest, eq)) => Err(Violation::new("direct", format!("C01 type={ty} kind=direct-roundtrip"), format!("value {}\n  serialises to {}\n  which deserialises to {} ({rest} bytes left, == original: {eq})", clip(&want, 500), clip(&hex(&d.bytes), 600), clip(dbg, 500)), input)),
        Err(err) => Err(Violation::new("direct", format!("C01 type={ty} kind=direct-roundtrip"), format!("value {}\n  serialises to {}\n  which does not deserialise: {err}", clip(&want, 500), clip(&hex(&d.bytes), 600)), input)),
    }
}

fn main() {
    silence_panics();
    let args: Vec<String> = std::env::args().skip(1).collect();
    let prop: &'static str = match std::env::var("VERIF_DIRECT_PROP").ok().as_deref() {
        Some("C03") => "C03",
        _ => "C01",
    };
    let t: Arc<Table> = zvtverif::table();
    let entries = construct_gen::entries();
    if args.first().map(|s| s.as_str()) == Some("--replay-case") {
        let Ok(text) = std::fs::read_to_string(&args[1]) else { std::process::exit(2) };
        let Ok(i) = serde_json::from_str::<Value>(&text) else { std::process::exit(2) };
        let (Some(name), Ok(v)) = (i.get("type").and_then(|s| s.as_str()), serde_json::from_value::<Val>(i["value"].clone())) else { std::process::exit(2) };
        let Some(e) = entries.iter().find(|e| e.name == name) else { std::process::exit(2) };
        if !is_canonical(&t, &t[name], &v) {
            std::process::exit(0);
        }
        match check(prop, &t, e, &v) {
            Ok(_) => std::process::exit(0),
            Err(v) => {
                println!("{}\n  {}", v.sig, v.detail);
                std::process::exit(1);
            }
        }
    }
    let tier = if args.first().map(|s| s.as_str()) == Some("thorough") { Tier::Thorough } else { Tier::Quick };
    let ctx = Ctx::new(prop, "exploration", tier);
    let mut stats = Stats::new();
    let per_type: u32 = tier.pick(1_500, 40_000);
    let s = ctx.shards("direct", entries.len() as u64, |i, seed, st| {
        let e = &entries[i as usize];
        let l = t[e.name].clone();
        let strat = strategy_for(&t, e.name, GenCfg { vec_max: 3, text_max: 60, blob_max: 60 });
        ctx.proptest(seed, per_type, &strat, st, |v, st| {
            if !is_canonical(&t, &l, v) {
                st.class("direct:discarded-non-canonical");
                return Ok(());
            }
            let r = check(prop, &t, e, v);
            let label = match &r {
                Ok(l) => *l,
                Err(_) => "checked",
            };
            st.case(label == "checked", fnv(&encode(&t, &l, v).unwrap()) ^ fnv_str(e.name));
            st.class(&format!("direct:{label}"));
            r.map(|_| ())
        });
    });
    stats.merge(s);
    stats.class_n("direct:types", entries.len() as u64);
    let Some(path) = std::env::var_os("VERIF_DIRECT_STATS") else { std::process::exit(2) };
    match std::fs::write(path, serde_json::to_string(&stats.to_value()).unwrap()) {
        Ok(()) => std::process::exit(0),
        Err(_) => std::process::exit(2),
    }
}
