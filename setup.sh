#!/bin/bash
# setup_cmd: offline build of the harness (both profiles). Everything comes from the local cargo cache.
set -e
ROOT="$(cd "$(dirname "$0")" && pwd)"
export CARGO_NET_OFFLINE=true
export CARGO_TARGET_DIR="$ROOT/target"
cd "$ROOT/harness"
cargo build --quiet --profile verif
cargo build --quiet --profile verifrel
echo "setup ok"
